#!/bin/sh
# Idempotent offline bootstrap of /verif/.venv (python 3.12 of /venv + crosshair-tool + z3 from the wheelhouse).
set -e
V=/verif/.venv
if [ -x "$V/bin/python" ] && "$V/bin/python" -c 'import crosshair, z3, maltoolbox_deps_ok' 2>/dev/null; then exit 0; fi
if [ ! -x "$V/bin/python" ]; then
  /venv/bin/python -m venv "$V"
fi
SP=$("$V/bin/python" -c 'import sysconfig; print(sysconfig.get_paths()["purelib"])')
printf "import site; site.addsitedir('/venv/lib/python3.12/site-packages')\n" > "$SP/verif_overlay.pth"
: > "$SP/maltoolbox_deps_ok.py"
if ! "$V/bin/python" -c 'import crosshair, z3' 2>/dev/null; then
  PIP_NO_INDEX=1 "$V/bin/python" -m pip install -q --no-index --find-links /opt/veriftools/wheels crosshair-tool >/dev/null
fi
"$V/bin/python" -c 'import crosshair, z3, antlr4, yaml, python_jsonschema_objects'
