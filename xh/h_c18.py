"""C18 - legacy model loaders agree with the native loader."""
from __future__ import annotations

import json
import os
import shutil
import zipfile
from xml.sax.saxutils import quoteattr

from xh.spec import Query, B, I, getter
from xh.g import idx
from xh.rt import notrace, pick, reclimit
from xh import langs, mb

PROP = 'C18'
TYPES0 = ['G1', 'G2', 'Am']
IDS0 = [-5, 0]
DPV = [None, 0.5, 0.0]
ATT = [[], [(0, 's')], [(0, 's'), (0, 'tP'), (1, 'tO'), (2, 'back')]]
_CNT = [0]


def native_model(lcf, c):
    from maltoolbox.model import Model, AttackerAttachment
    m = Model('legacy test', lcf)
    t0 = TYPES0[c['t0']]
    a0 = getattr(lcf.ns, t0)(name='srv')
    m.add_asset(a0, asset_id=IDS0[c['i0']])
    a1 = lcf.ns.O(name='o \U0001F600 one')
    m.add_asset(a1, asset_id=3)
    a2 = lcf.ns.O(name='o2')
    m.add_asset(a2, asset_id=12)
    A = [a0, a1, a2]
    if DPV[c['dp']] is not None:
        a0.dP = DPV[c['dp']]
        a0.dA = 1.0
    if c['l0'] and c['l1'] and c['pack']:
        mb.add_link(m, lcf, 'L', 'ps', [a0], 'os', [a1, a2])
    else:
        if c['l0']:
            mb.add_link(m, lcf, 'L', 'ps', [a0], 'os', [a1])
        if c['l1']:
            mb.add_link(m, lcf, 'L', 'ps', [a0], 'os', [a2])
    if c['l2']:
        mb.add_link(m, lcf, 'L1', 'ps1', [a0], 'os1', [a1])
    if c['l3']:
        mb.add_link(m, lcf, 'L2', 'as2', [a0], 'os2', [a2])
    if c['l4'] and t0 in ('G1', 'G2'):
        k = 'Dup_%s_O' % t0
        f1, f2 = ('dg1', 'do1') if t0 == 'G1' else ('dg2', 'do2')
        mb.add_link(m, lcf, k, f1, [a0], f2, [a1])
    if c.get('l5'):
        mb.add_link(m, lcf, 'Chain', 'prv', [a1], 'nxt', [a2])       # both ends of the same type
    eps = ATT[c['att']]
    if eps:
        t = AttackerAttachment(name='Attacker:%d' % c['aid'])
        m.add_attacker(t, attacker_id=c['aid'])
        for (ai, st) in eps:
            t.add_entry_point(A[ai], st)
        if c.get('att2'):
            t2 = AttackerAttachment(name='Attacker:77')
            m.add_attacker(t2, attacker_id=77)
            t2.add_entry_point(A[2], 'tO')
            if c['att2'] == 2:
                t3 = AttackerAttachment(name='Attacker:78')     # an attacker without entry points
                m.add_attacker(t3, attacker_id=78)
    return m


def normal(m):
    """Assets (id, name, type, defenses), pairwise links, attacker entry points - what the property compares."""
    d = m._to_dict()
    assets = {int(k): (v['name'], v['type'], tuple(sorted((v.get('defenses') or {}).items()))) for k, v in d['assets'].items()}
    links = set()
    for e in d['associations']:
        (cls, fields), = [(k, v) for k, v in e.items() if k != 'extras']
        (f1, m1), (f2, m2) = sorted(fields.items())
        for x in m1:
            for y in m2:
                links.add((cls, f1, int(x), f2, int(y)))
    atts = {}
    for k, v in d['attackers'].items():
        atts[int(k)] = sorted((int(a), tuple(sorted(s['attack_steps']))) for a, s in v['entry_points'].items())
    return assets, links, atts


def emit_0_0_39(m, variant):
    d = m._to_dict()
    out = {'metadata': {'name': d['metadata']['name']}, 'assets': {}, 'associations': [], 'attackers': {}}
    for k, v in d['assets'].items():
        e = {'metaconcept': v['type'], 'name': v['name']}
        if v.get('defenses'):
            e['defenses'] = dict(v['defenses'])
        out['assets'][str(k)] = e
    for e in d['associations']:
        (cls, fields), = [(k, v) for k, v in e.items() if k != 'extras']
        if variant == 0:
            out['associations'].append({'metaconcept': cls, 'association': {f: list(ids) for f, ids in fields.items()}})
        else:
            x = {'metaconcept': cls}
            x.update({f: list(ids) for f, ids in fields.items()})
            out['associations'].append(x)
    for k, v in d['attackers'].items():
        out['attackers'][str(k)] = {'name': v['name'], 'entry_points': {str(a): {'attack_steps': list(s['attack_steps'])} for a, s in v['entry_points'].items()}}
    return out


def emit_eom(m, orient):
    """securiCAD .eom XML for the model: one association element per linked pair; attackers as Attacker objects."""
    d = m._to_dict()
    xs = ['<?xml version="1.0" encoding="utf-8"?>',
          '<com.foreseeti.kernalCAD:XMIObjectModel xmi:version="2.0" xmlns:xmi="http://www.omg.org/XMI" '
          'xmlns:com.foreseeti.kernalCAD="http:///com/foreseeti/ObjectModel.ecore">']
    for k, v in d['assets'].items():
        xs.append('  <objects description="" id="%d" name=%s metaConcept=%s template="false">' % (int(k), quoteattr(v['name']), quoteattr(v['type'])))
        for dn, dv in (v.get('defenses') or {}).items():
            xs.append('    <evidenceAttributes metaConcept=%s><evidenceDistribution type="Bernoulli"><parameters name="probability" value="%r"/>'
                      '</evidenceDistribution></evidenceAttributes>' % (quoteattr(dn[0].upper() + dn[1:]), float(dv)))
        xs.append('    <evidenceAttributes metaConcept="SomeAttackStep"/>')
        xs.append('  </objects>')
    for k, v in d['attackers'].items():
        xs.append('  <objects description="" id="%d" name="Attacker" metaConcept="Attacker" template="false"><evidenceAttributes metaConcept="EntryPoint"/></objects>' % int(k))
    n = 0
    for e in d['associations']:
        (cls, fields), = [(kk, vv) for kk, vv in e.items() if kk != 'extras']
        (f1, m1), (f2, m2) = list(fields.items())
        for x in m1:
            for y in m2:
                n += 1
                # loader: asset targetObject goes into field sourceProperty, asset sourceObject into field targetProperty
                if (orient + n) % 2 == 0:
                    xs.append('  <associations description="" sourceObject="%d" targetObject="%d" id="%d" sourceProperty="%s" targetProperty="%s"/>' % (y, x, 1000 + n, f1, f2))
                else:
                    xs.append('  <associations description="" sourceObject="%d" targetObject="%d" id="%d" sourceProperty="%s" targetProperty="%s"/>' % (x, y, 1000 + n, f2, f1))
    for k, v in d['attackers'].items():
        flat = [(a, st, i) for a, s in v['entry_points'].items() for i, st in enumerate(s['attack_steps'])]
        flat.sort(key=lambda x: x[2])          # first steps of different assets interleaved: A.s, B.tO, ..., A.tP
        for a, st, _i in flat:
            if True:
                n += 1
                if (orient + n) % 2 == 0:
                    xs.append('  <associations description="" sourceObject="%d" targetObject="%d" id="%d" sourceProperty="firstSteps" targetProperty="%s.attacker"/>' % (int(k), int(a), 1000 + n, st))
                else:
                    xs.append('  <associations description="" sourceObject="%d" targetObject="%d" id="%d" sourceProperty="%s.attacker" targetProperty="firstSteps"/>' % (int(a), int(k), 1000 + n, st))
    xs.append('</com.foreseeti.kernalCAD:XMIObjectModel>')
    return '\n'.join(xs)


def _choices(kw):
    return {'t0': idx(kw['t0'], 3), 'i0': idx(kw['i0'], 2), 'dp': idx(kw['dp'], 3), 'aid': ([40, 0][idx(kw['aid'], 2)] if 'aid' in kw else 40), 'att': idx(kw['att'], 3),
            'att2': (idx(kw['a2'], 3) if 'a2' in kw else 0), 'l0': bool(kw['l0']), 'l1': bool(kw['l1']), 'l2': bool(kw['l2']), 'l3': bool(kw['l3']), 'l4': bool(kw['l4']), 'pack': bool(kw['pack']),
            'l5': (bool(kw['l5']) if 'l5' in kw else False)}


def _native_loaded(m, lcf, d):
    from maltoolbox.model import Model
    p = os.path.join(d, 'native.json')
    m.save_to_file(p)
    return Model.load_from_file(p, lcf)


def body_old(cube, **kw):
    from maltoolbox.translators.updater import load_model_from_older_version
    c = _choices(kw)
    variant = idx(kw['var'], 2)
    fmt = ['json', 'yml', 'yaml'][idx(kw['fmt'], 3)]
    with notrace(), reclimit():
        lg, lcf = langs.build_lang(langs.L_INH())
        m = native_model(lcf, c)
        _CNT[0] += 1
        d = os.path.join(os.getcwd(), 'c18_%d_%d' % (os.getpid(), _CNT[0]))
        os.makedirs(d)
        try:
            nat = _native_loaded(m, lcf, d)
            p = os.path.join(d, 'old.' + fmt)
            from maltoolbox.file_utils import save_dict_to_file
            save_dict_to_file(p, emit_0_0_39(m, variant))
            old = load_model_from_older_version(p, lcf, '0.0.39')
        finally:
            shutil.rmtree(d, ignore_errors=True)
        a, b = normal(nat), normal(old)
        for nm, x, y in zip(('assets', 'links', 'attacker entry points'), a, b):
            if x != y:
                return '0.0.39 layout (%s, variant %d): %s differ: legacy %r vs native %r' % (fmt, variant, nm, y, x)
    return ''


def body_scad(cube, **kw):
    from maltoolbox.translators.securicad import load_model_from_scad_archive
    c = _choices(kw)
    orient = idx(kw['ori'], 2)
    with notrace(), reclimit():
        lg, lcf = langs.build_lang(langs.L_INH())
        m = native_model(lcf, c)
        _CNT[0] += 1
        d = os.path.join(os.getcwd(), 'c18s_%d_%d' % (os.getpid(), _CNT[0]))
        os.makedirs(d)
        try:
            nat = _native_loaded(m, lcf, d)
            p = os.path.join(d, 'model.sCAD')
            with zipfile.ZipFile(p, 'w') as z:
                z.writestr('model.eom', emit_eom(m, orient))
                z.writestr('meta.json', '{}')
            sc = load_model_from_scad_archive(p, lg, lcf)
        finally:
            shutil.rmtree(d, ignore_errors=True)
        if sc is None:
            return 'securiCAD loader returned None'
        a, b = normal(nat), normal(sc)
        for nm, x, y in zip(('assets', 'links', 'attacker entry points'), a, b):
            if x != y:
                return 'securiCAD archive (orientation %d): %s differ: legacy %r vs native %r' % (orient, nm, y, x)
    return ''


def body_twin(cube, **kw):
    """Language with two associations that share both field names (Holds / Carries): links must keep their own class."""
    from maltoolbox.translators.securicad import load_model_from_scad_archive
    from maltoolbox.translators.updater import load_model_from_older_version
    from maltoolbox.file_utils import save_dict_to_file
    b = [bool(kw['b%d' % i]) for i in range(4)]
    kind = idx(kw['kind'], 3)
    with notrace(), reclimit():
        lg, lcf = langs.build_lang(langs.L_TWIN())
        m, A = mb.build_model(lcf, ['Host', 'Disk', 'Net', 'Packet', 'Disk', 'Packet'], ids=[4, 9, 0, 6, -2, 11])
        if b[0]:
            mb.add_link(m, lcf, 'Holds', 'owner', [A[0]], 'items', [A[1]])
        if b[1]:
            mb.add_link(m, lcf, 'Carries', 'owner', [A[2]], 'items', [A[3]])
        if b[2]:
            mb.add_link(m, lcf, 'Holds', 'owner', [A[0]], 'items', [A[4]])
        if b[3]:
            mb.add_link(m, lcf, 'Carries', 'owner', [A[2]], 'items', [A[5]])
        _CNT[0] += 1
        d = os.path.join(os.getcwd(), 'c18t_%d_%d' % (os.getpid(), _CNT[0]))
        os.makedirs(d)
        try:
            nat = _native_loaded(m, lcf, d)
            if kind < 2:
                p = os.path.join(d, 'model.sCAD')
                with zipfile.ZipFile(p, 'w') as z:
                    z.writestr('model.eom', emit_eom(m, kind))
                leg = load_model_from_scad_archive(p, lg, lcf)
            else:
                p = os.path.join(d, 'old.json')
                save_dict_to_file(p, emit_0_0_39(m, 0))
                leg = load_model_from_older_version(p, lcf, '0.0.39')
        finally:
            shutil.rmtree(d, ignore_errors=True)
        if leg is None:
            return 'legacy loader returned None'
        x, y = normal(nat), normal(leg)
        for nm, u, v in zip(('assets', 'links', 'attacker entry points'), x, y):
            if u != v:
                return 'L_TWIN (%s): %s differ: legacy %r vs native %r' % (['sCAD', 'sCAD reversed', '0.0.39'][kind], nm, v, u)
    return ''


def queries(tier):
    base = [I('t0', 0, 2), I('i0', 0, 1), I('dp', 0, 2), I('aid', 0, 1), I('att', 0, 2), I('a2', 0, 2), B('l0'), B('l1'), B('l2'), B('l3'), B('l4'), B('l5'), B('pack')]
    w = {'t0': 0, 'i0': 1, 'dp': 1, 'aid': 0, 'att': 2, 'a2': 2, 'l0': True, 'l1': True, 'l2': True, 'l3': False, 'l4': True, 'l5': True, 'pack': True}
    pre = ['l0 + l1 + l2 + l3 + l4 + l5 <= 2', 'not pack or (l0 and l1)'] + \
          ['aid == 0 or (att > 0 and i0 == 0)', 'a2 == 0 or (att > 0 and l0 + l1 + l2 + l3 + l4 + l5 <= 1)']
    qs = [Query(name='old', body=body_old, params=base + [I('var', 0, 1), I('fmt', 0, 2)], pre=pre + (['fmt == var'] if tier == 'quick' else []),
                split=['t0', 'att', 'dp'] + ([] if tier == 'quick' else ['var']), timeout=600 if tier == 'quick' else 1700,
                witnesses=[({}, dict(w, var=0, fmt=0)), ({}, dict(w, var=1, fmt=1, t0=1))],
                bound='3-asset L_INH models (first asset G1/G2/Am with id -5 or 0, ids 3 and 12; defenses; links L (separate or two members in one field), L1, L2, '
                      'Dup_G1_O / Dup_G2_O, Chain between the two O assets (both ends of one type); attacker with id 40 or 0 and 0, 1 or 4 entry points incl. two on one asset; defense dP (enabled by default) left, set to 0.5 or switched to 0) emitted in the 0.0.39 layout (both association '
                      'variants; json / yml / yaml) and loaded by load_model_from_older_version'),
          Query(name='scad', body=body_scad, params=base + [I('ori', 0, 1)], pre=pre, split=['t0', 'att', 'dp'], timeout=600 if tier == 'quick' else 1700,
                witnesses=[({}, dict(w, **{'ori': 0})), ({}, dict(w, **{'ori': 1, 't0': 1, 'i0': 0}))],
                bound='the same models emitted as a .sCAD archive (.eom XML, one association element per linked pair in alternating source/target '
                      'orientation, Attacker objects with firstSteps associations) and loaded by load_model_from_scad_archive')]
    ps = [B('b0'), B('b1'), B('b2'), B('b3'), I('kind', 0, 2)]
    qs.append(Query(name='twin', body=body_twin, params=ps, timeout=400,
                    witnesses=[({}, {'b0': True, 'b1': True, 'b2': True, 'b3': False, 'kind': 0})],
                    bound='language L_TWIN (two associations sharing both field names between different type pairs): every subset of 4 links, '
                          'both .sCAD orientations and the 0.0.39 layout'))
    return qs


META = {
    'bounds': '3-asset L_INH models as listed; two legacy formats',
    'outside': ['models the legacy formats cannot express', 'more than 3 assets / one attacker'],
    'stubs': ['pjo MakeLiteral memoised; pjo class building untraced'],
    'assumptions': ['the inverse translators (emit_0_0_39, emit_eom) encode my reading of the two legacy formats as the loaders consume them; '
                    'the .eom element/attribute names follow tests/testdata/example_model.sCAD',
                    'comparison is on assets (id, name, type, non-default defenses), pairwise links and attacker entry points, as the property states'],
    'requires': ['load_model_from_version_0_0_39', 'load_model_from_scad_archive', 'LanguageGraph.get_association_by_fields_and_assets',
                 'LanguageClassesFactory.get_association_by_signature'],
}
get_query = getter(queries)
