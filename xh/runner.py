"""Check driver: ./check <PROP> [--tier quick|thorough]  |  ./check --replay FILE

Exit codes: 0 property held on everything explored (or only known findings);
1 VIOLATION (reproduced on the real code, not listed as known); 3 harness error
(non-reproducing counterexample, vacuous query, crashed worker) - never a verdict.
"""
from __future__ import annotations

import importlib
import json
import multiprocessing as mp
import multiprocessing.connection as mpc
import os
import subprocess
import sys
import time
import hashlib

VERIF = os.path.dirname(os.path.dirname(os.path.abspath(__file__)))
sys.path.insert(0, VERIF)

from xh import env  # noqa: E402

PLAIN_PY = '/venv/bin/python'
KF_FILE = os.path.join(VERIF, 'known_findings.json')


# ----------------------------------------------------------------------------- workers
def _worker(conn, scratch):
    try:
        env.activate(scratch)
        from xh import driver
    except BaseException as e:  # noqa
        conn.send({'verdict': 'error', 'messages': [('WORKER_INIT', repr(e))], 'task': None})
        return
    while True:
        try:
            task = conn.recv()
        except EOFError:
            return
        if task is None:
            return
        res = driver.run_cube(task)
        conn.send(res)


class Pool:
    def __init__(self, scratch, n):
        self.ctx = mp.get_context('spawn')
        self.scratch = scratch
        self.n = n
        self.workers = []

    def _spawn(self):
        a, b = self.ctx.Pipe()
        p = self.ctx.Process(target=_worker, args=(b, self.scratch), daemon=True)
        p.start()
        b.close()
        return {'proc': p, 'conn': a, 'task': None, 't0': 0.0, 'used': 0}

    def run(self, tasks, on_result):
        pending = list(tasks)
        n = min(self.n, max(1, len(pending)))
        self.workers = [self._spawn() for _ in range(n)]
        done = 0
        total = len(pending)
        while done < total:
            for w in self.workers:
                if w['task'] is None and pending:
                    if w['used'] and pending[0].get('fresh_process'):
                        self._retire(w)
                        w.update(self._spawn())
                    t = pending.pop(0)
                    w['task'] = t
                    w['t0'] = time.time()
                    w['used'] += 1
                    w['conn'].send(t)
            busy = [w for w in self.workers if w['task'] is not None]
            ready = mpc.wait([w['conn'] for w in busy], timeout=1.0)
            for w in busy:
                if w['conn'] in ready:
                    try:
                        res = w['conn'].recv()
                    except (EOFError, OSError):
                        res = {'verdict': 'error', 'task': _tk(w['task']),
                               'messages': [('WORKER_DIED', 'worker exited, code %s' % w['proc'].exitcode)],
                               'paths': 0, 'ok_paths': 0, 'solver_checks': 0, 'solver_s': 0.0, 'cex': None,
                               'wall_s': round(time.time() - w['t0'], 2)}
                        self._retire(w)
                        w.update(self._spawn())
                    res['_task'] = w['task']
                    w['task'] = None
                    done += 1
                    if on_result(res):
                        # abort requested (mutant evaluation only): drop what has not started, do not wait for the rest
                        for x in self.workers:
                            self._retire(x)
                        return
                elif time.time() - w['t0'] > w['task']['hard_deadline']:
                    res = {'verdict': 'inconclusive', 'task': _tk(w['task']),
                           'messages': [('HARD_TIMEOUT', 'worker killed after %ds' % w['task']['hard_deadline'])],
                           'paths': 0, 'ok_paths': 0, 'solver_checks': 0, 'solver_s': 0.0, 'cex': None,
                           'wall_s': round(time.time() - w['t0'], 2), '_task': w['task']}
                    self._retire(w)
                    w.update(self._spawn())
                    w['task'] = None
                    done += 1
                    on_result(res)
        for w in self.workers:
            self._retire(w)

    def _retire(self, w):
        try:
            w['conn'].send(None)
        except Exception:
            pass
        w['proc'].join(0.2)
        if w['proc'].is_alive():
            w['proc'].terminate()
            w['proc'].join(2)
            if w['proc'].is_alive():
                w['proc'].kill()
        try:
            w['conn'].close()
        except Exception:
            pass


def _tk(t):
    return {k: t[k] for k in ('prop_mod', 'query', 'tier', 'cube_idx', 'mode')}


# ----------------------------------------------------------------------------- helpers
def load_kf():
    if not os.path.exists(KF_FILE):
        return {'findings': [], 'fixed': []}
    with open(KF_FILE) as f:
        return json.load(f)


def write_record(prop, rec):
    d = os.path.join(os.environ.get('VERIF_REPLAY_DIR') or os.path.join(VERIF, 'replays'), prop)
    os.makedirs(d, exist_ok=True)
    h = hashlib.sha1(json.dumps([rec['query'], rec['cube'], rec['args']], sort_keys=True, default=str).encode()).hexdigest()[:10]
    p = os.path.join(d, '%s-%s.json' % (rec['query'], h))
    with open(p, 'w') as f:
        json.dump(rec, f, indent=1, sort_keys=True, default=str)
    return p


def replay_files(files, scratch):
    """Run records in a plain interpreter; returns {file: (reproduced, text)}."""
    out = {}
    if not files:
        return out
    envv = dict(os.environ)
    envv['PYTHONDONTWRITEBYTECODE'] = '1'
    envv.pop('PYTHONHASHSEED', None)
    p = subprocess.run([PLAIN_PY, '-m', 'xh.replay', '--scratch', scratch, '--json'] + list(files),
                       cwd=VERIF, env=envv, capture_output=True, text=True, timeout=3600)
    for line in p.stdout.splitlines():
        line = line.strip()
        if line.startswith('{'):
            try:
                o = json.loads(line)
                out[o['file']] = (o['reproduced'], o['text'])
            except Exception:
                pass
    for f in files:
        if f not in out:
            out[f] = (None, 'replay process gave no result: ' + (p.stderr or '')[-400:])
    return out


def eval_pred(pred, cube, args):
    try:
        return bool(eval(pred, {'CUBE': cube, '__builtins__': {'any': any, 'all': all, 'len': len, 'sum': sum,
                                                               'range': range, 'int': int, 'bool': bool, 'abs': abs}},
                         dict(cube.get('_fixed', {}), **args)))
    except Exception:
        return False


def profile_witnesses(H, qs, scratch):
    """Concrete run of every witness under sys.setprofile: functions executed + sample inputs."""
    from xh import rt
    root = os.path.join(scratch, 'maltoolbox')
    seen = set()

    def prof(frame, event, arg):
        if event == 'call':
            co = frame.f_code
            if co.co_filename.startswith(root):
                seen.add(os.path.relpath(co.co_filename, root)[:-3].replace(os.sep, '.') + ':' + co.co_qualname)

    results = []
    for q in qs:
        for cube, args in q.witnesses:
            sys.setprofile(prof)
            try:
                text = rt.run_body(q.body, cube, dict(args))
            finally:
                sys.setprofile(None)
            results.append({'query': q.name, 'cube': cube, 'args': args, 'result': text})
    return sorted(seen), results


# ----------------------------------------------------------------------------- main
def main(argv):
    if argv and argv[0] == '--replay':
        return subprocess.call([PLAIN_PY, '-m', 'xh.replay'] + argv[1:], cwd=VERIF)
    prop = argv[0].upper()
    tier = os.environ.get('VERIF_TIER', 'quick')
    only = None
    jobs = int(os.environ.get('VERIF_JOBS', '0')) or (os.cpu_count() or 4)
    i = 1
    while i < len(argv):
        if argv[i] == '--tier':
            tier = argv[i + 1]; i += 2
        elif argv[i] == '--only':
            only = argv[i + 1].split(','); i += 2
        elif argv[i] == '--jobs':
            jobs = int(argv[i + 1]); i += 2
        else:
            raise SystemExit('unknown argument ' + argv[i])
    seed = int(os.environ.get('VERIF_SEED', '0') or 0)
    t0 = time.time()
    scratch = env.make_scratch()
    try:
        return _run(prop, tier, only, jobs, seed, scratch, t0)
    finally:
        env.remove_scratch(scratch)


def _run(prop, tier, only, jobs, seed, scratch, t0):
    env.activate(scratch)
    digest = env.tree_digest(scratch)
    prop_mod = 'xh.h_' + prop.lower()
    H = importlib.import_module(prop_mod)
    qs = H.queries(tier)
    if only:
        qs = [q for q in qs if q.name in only]
    print('[%s] tier=%s tree=%s queries=%s jobs=%d' % (prop, tier, digest, [q.name for q in qs], jobs), flush=True)

    harness_errors = []
    violations = []       # (text, replay path)
    known_lines = []
    inconclusive = []
    traces_validated = 0

    # -- known findings: replay witnesses, build exclusion predicates
    kf = load_kf()
    kf_open = [e for e in kf.get('findings', []) if e['property'] == prop]
    kf_fixed = [e for e in kf.get('fixed', []) if isinstance(e, dict) and e.get('property') == prop and e.get('witness')]
    wit_files = {}
    for e in kf_open + kf_fixed:
        w = e['witness']
        rec = {'property': prop, 'prop_mod': prop_mod, 'query': w['query'], 'tier': w.get('tier', 'thorough'),
               'cube': w['cube'], 'args': w['args'], 'kind': 'known-finding-witness', 'id': e['id'], 'tree': digest}
        wit_files[e['id']] = write_record(prop, rec)
    rep = replay_files(list(wit_files.values()), scratch)
    traces_validated += len(rep)
    active_kf = []
    for e in kf_open:
        ok, text = rep[wit_files[e['id']]]
        if ok is None:
            harness_errors.append('known-finding witness %s could not be replayed: %s' % (e['id'], text))
        elif ok:
            known_lines.append('KNOWN-FINDING: property=%s %s [%s] witness still fails: %s' % (prop, e['text'], e['id'], text[:160]))
            active_kf.append(e)
        else:
            print('STALE-KNOWN-FINDING property=%s %s: witness no longer fails; region searched again' % (prop, e['id']))
    for e in kf_fixed:
        ok, text = rep[wit_files[e['id']]]
        if ok:
            violations.append(('regression of fixed finding %s: %s' % (e['id'], text), wit_files[e['id']]))
        elif ok is None:
            harness_errors.append('fixed-finding witness %s could not be replayed: %s' % (e['id'], text))

    # -- concrete witnesses (oracle validation on trusted inputs, functions executed, samples)
    functions, wit_results = profile_witnesses(H, qs, scratch)
    traces_validated += len(wit_results)
    for w in wit_results:
        if w['result'] != '':
            # a concrete sample failing is a violation candidate like any counterexample
            q = next(x for x in qs if x.name == w['query'])
            if any(e.get('query') == q.name and eval_pred(e['predicate'], w['cube'], w['args']) for e in active_kf):
                continue
            rec = {'property': prop, 'prop_mod': prop_mod, 'query': w['query'], 'tier': tier, 'cube': w['cube'],
                   'args': w['args'], 'text': w['result'], 'kind': 'concrete-witness', 'tree': digest}
            violations.append((w['result'], write_record(prop, rec)))
    if not only:
        for need in sorted(set(r for q in qs for r in q.requires) | set(getattr(H, 'META', {}).get('requires', []))):
            if not any(need in f for f in functions):
                harness_errors.append('required function %s was not executed by any concrete witness' % need)

    # -- solver tasks
    tasks = []
    for q in qs:
        extra = ['not (%s)' % e['predicate'] for e in active_kf if e.get('query') == q.name]
        for ci in range(len(q.cubes)):
            tasks.append({'prop_mod': prop_mod, 'query': q.name, 'tier': tier, 'cube_idx': ci, 'mode': 'main',
                          'extra_pre': extra, 'scratch': scratch, 'timeout': q.timeout,
                          'hard_deadline': q.timeout * 1.5 + 90, 'fresh_process': q.fresh_process})
        tasks.append({'prop_mod': prop_mod, 'query': q.name, 'tier': tier, 'cube_idx': 0, 'mode': 'twin',
                      'extra_pre': extra, 'scratch': scratch, 'timeout': min(q.timeout, 120),
                      'hard_deadline': min(q.timeout, 120) * 1.5 + 90, 'fresh_process': q.fresh_process})
    # twins first (cheap), then the longest budgets
    tasks.sort(key=lambda t: (t['mode'] != 'twin', -t['timeout']))
    results = []

    def on_result(res):
        results.append(res)
        t = res['_task']
        print('  %-10s %-7s cube %3d  %-12s paths=%-6d solver=%-6d %.1fs' % (
            t['query'], t['mode'], t['cube_idx'], res['verdict'], res.get('paths', 0),
            res.get('solver_checks', 0), res.get('wall_s', 0)), flush=True)
        return bool(os.environ.get('VERIF_STOP_ON_FIRST')) and t['mode'] == 'main' and res['verdict'] == 'cex'

    Pool(scratch, jobs).run(tasks, on_result)

    # -- interpret
    per_query = {}
    cex_records = []
    for res in results:
        t = res['_task']
        q = next(x for x in qs if x.name == t['query'])
        pq = per_query.setdefault(q.name, {'bound': q.bound, 'space': q.space(), 'cubes': len(q.cubes),
                                           'confirmed': 0, 'cex': 0, 'inconclusive': 0, 'paths': 0,
                                           'ok_paths': 0, 'solver_checks': 0, 'solver_s': 0.0, 'cpu_s': 0.0,
                                           'twin': None})
        if t['mode'] == 'twin':
            if res['verdict'] == 'cex' and res['cex'] and res['cex']['text'] == '':
                pq['twin'] = 'reached'
                traces_validated += 0
            elif res['verdict'] == 'cex':
                # the twin failed for another reason: the main query will report it
                pq['twin'] = 'reached-with-failure'
            else:
                pq['twin'] = res['verdict']
                harness_errors.append('reachability twin of %s did not reach the end of the harness: %s %s' % (
                    q.name, res['verdict'], res.get('messages')))
            continue
        for k in ('paths', 'ok_paths', 'solver_checks'):
            pq[k] += res.get(k, 0)
        pq['solver_s'] += res.get('solver_s', 0.0)
        pq['cpu_s'] += res.get('wall_s', 0.0)
        v = res['verdict']
        if v == 'confirmed':
            pq['confirmed'] += 1
            if res.get('ok_paths', 0) == 0:
                harness_errors.append('query %s cube %d confirmed with zero completed paths (vacuous)' % (q.name, t['cube_idx']))
        elif v == 'cex':
            pq['cex'] += 1
            c = res['cex'] or {}
            if c.get('args') is None:
                harness_errors.append('query %s cube %d: counterexample without arguments: %s' % (q.name, t['cube_idx'], c.get('text')))
                continue
            rec = {'property': prop, 'prop_mod': prop_mod, 'query': q.name, 'tier': tier,
                   'cube': q.cubes[t['cube_idx']], 'args': c['args'], 'text': c['text'],
                   'kind': 'solver-counterexample', 'tree': digest}
            cex_records.append((rec, write_record(prop, rec)))
        elif v == 'vacuous' and '_fixed' in q.cubes[t['cube_idx']] and (q.pre or t.get('extra_pre')):
            # a split valuation that contradicts the query's own precondition: an empty cube, nothing to decide
            pq['confirmed'] += 1
            pq['empty_cubes'] = pq.get('empty_cubes', 0) + 1
        elif v == 'inconclusive':
            pq['inconclusive'] += 1
            inconclusive.append('%s cube %d (%s paths explored, budget %ss)' % (q.name, t['cube_idx'], res.get('paths'), t['timeout']))
        else:
            harness_errors.append('query %s cube %d: %s %s' % (q.name, t['cube_idx'], v, res.get('messages')))

    rep = replay_files([p for _, p in cex_records], scratch)
    traces_validated += len(rep)
    for rec, path in cex_records:
        ok, text = rep[path]
        if ok:
            hit = [e for e in active_kf if e.get('query') == rec['query'] and eval_pred(e['predicate'], rec['cube'], rec['args'])]
            if hit:
                known_lines.append('KNOWN-FINDING: property=%s %s [%s]' % (prop, hit[0]['text'], hit[0]['id']))
            else:
                violations.append((text, path))
        else:
            harness_errors.append('counterexample of %s did not reproduce on the real code (%s): solver said %r, replay said %r'
                                  % (rec['query'], path, rec['text'], text))

    # -- evidence
    if os.environ.get('VERIF_STOP_ON_FIRST'):
        harness_errors = [e for e in harness_errors if 'twin' not in e]
        inconclusive.append('run aborted at the first counterexample (VERIF_STOP_ON_FIRST): remaining cubes not explored')
    for qn, pq in per_query.items():
        if pq.get('empty_cubes', 0) >= pq['cubes']:
            harness_errors.append('query %s: every cube is empty (precondition unsatisfiable)' % qn)
    exhaustive = (not inconclusive and not harness_errors and not violations
                  and all(pq['confirmed'] == pq['cubes'] for pq in per_query.values()))
    n_paths = sum(pq['paths'] for pq in per_query.values())
    n_checks = sum(pq['solver_checks'] for pq in per_query.values())
    samples = [{'query': w['query'], 'cube': w['cube'], 'args': w['args'], 'result': w['result'] or 'holds'}
               for w in wit_results][:6]
    samples += [{'query': r['query'], 'cube': r['cube'], 'args': r['args'], 'result': r['text']} for r, _ in cex_records][:4]
    if not samples:
        samples = [{'query': q.name, 'cube': q.cubes[0]} for q in qs]
    meta = getattr(H, 'META', {})
    ev = {
        'property_id': prop, 'tier': tier, 'seed': seed, 'level': 'model_checking',
        'coverage': {
            'states': n_paths, 'transitions': n_checks,
            'traces_validated_against_impl': traces_validated,
            'samples': samples,
            'exhaustive': bool(exhaustive),
            'explanation': 'states = execution paths of the real maltoolbox code decided by CrossHair/z3 '
                           '(each path = one region of the symbolic input space); transitions = z3 check() calls; '
                           'exhaustive = every cube of every query ended "Confirmed over all paths" within its budget.',
            'engine': 'crosshair-tool 0.0.110 + z3 (symbolic execution of the real Python modules, per path)',
            'functions_encoded': functions,
            'queries': per_query,
            'queries_discharged': sum(pq['confirmed'] for pq in per_query.values()),
            'cubes_total': sum(pq['cubes'] for pq in per_query.values()),
            'solver_s': round(sum(pq['solver_s'] for pq in per_query.values()), 2),
            'cpu_s': round(sum(pq['cpu_s'] for pq in per_query.values()), 1),
            'inconclusive': inconclusive,
            'known_findings_reported': known_lines,
            'harness_errors': harness_errors,
            'tree_digest': digest,
            'bounds': meta.get('bounds', ''),
            'outside_claim': meta.get('outside', []),
            'stubs': meta.get('stubs', []),
        },
        'assumptions': meta.get('assumptions', []),
        'wall_s': round(time.time() - t0, 1),
        'violations': len(violations),
    }
    evdir = os.environ.get('VERIF_EVIDENCE_DIR') or os.path.join(VERIF, 'evidence')   # overridden only for mutant evaluation
    os.makedirs(evdir, exist_ok=True)
    with open(os.path.join(evdir, prop + '.json'), 'w') as f:
        json.dump(ev, f, indent=1, sort_keys=True, default=str)

    for ln in sorted(set(known_lines)):
        print(ln)
    for ln in inconclusive:
        print('INCONCLUSIVE property=%s %s' % (prop, ln))
    for text, path in violations:
        print('VIOLATION property=%s replay=%s' % (prop, path))
        print('  ' + text[:400])
    for e in harness_errors:
        print('HARNESS-ERROR property=%s %s' % (prop, e[:600]))
    print('[%s] paths=%d solver_checks=%d exhaustive=%s wall=%.0fs' % (prop, n_paths, n_checks, exhaustive, time.time() - t0))
    if violations:
        return 1
    if harness_errors:
        return 3
    return 0


if __name__ == '__main__':
    sys.exit(main(sys.argv[1:]))
