"""Model-building helpers for the pjo-based harnesses (all inputs concrete when these run)."""
from __future__ import annotations

from xh import langs


def names_set(nodes):
    return set((str(n.asset.name), str(n.name)) for n in nodes)


def build_model(lcf, types, names=None, ids=None, name='m'):
    from maltoolbox.model import Model
    m = Model(name, lcf)
    assets = []
    for i, t in enumerate(types):
        a = getattr(lcf.ns, t)(name=(names[i] if names else 'a%d' % i))
        if ids is not None and ids[i] is not None:
            m.add_asset(a, asset_id=ids[i])
        else:
            m.add_asset(a)
        assets.append(a)
    return m, assets


def add_link(m, lcf, assoc_cls, lfield, lassets, rfield, rassets):
    a = getattr(lcf.ns, assoc_cls)()
    setattr(a, lfield, list(lassets))
    setattr(a, rfield, list(rassets))
    m.add_association(a)
    return a


def check_edges(graph, assets, rel, steps_of, tname=None):
    """Compare children/parents of every node with the reference semantics.
    steps_of(type) -> {step name: [reaches expressions]} (already folded)."""
    n = len(assets)
    by_name = {}
    for nd in graph.nodes:
        by_name[(str(nd.asset.name), str(nd.name))] = nd
    expected_parents = {}
    for i, a in enumerate(assets):
        for sname, exprs in steps_of(rel.types[i]).items():
            aname = str(a.name)
            nd = by_name.get((aname, sname))
            if nd is None:
                return 'node %s:%s missing' % (aname, sname)
            lo, up = set(), set()
            for e in exprs:
                nav, target = langs.split_target(e)
                if nav is None:
                    l, u = {i}, {i}
                else:
                    l, u = langs.ev(rel, nav, {i}, rel.types[i])
                lo |= set((str(assets[j].name), target) for j in l)
                up |= set((str(assets[j].name), target) for j in u)
            got = names_set(nd.children)
            if not (lo <= got <= up):
                return 'children of %s:%s are %s, MAL semantics of %s gives %s%s' % (
                    aname, sname, sorted(got), [langs.show(e) for e in exprs], sorted(lo),
                    '' if lo == up else ' .. %s' % sorted(up))
            for c in nd.children:
                expected_parents.setdefault(id(c), set()).add((aname, sname))
                if by_name.get((str(c.asset.name), str(c.name))) is not c:
                    return 'child %s of %s is not the graph node of that name' % (c.full_name, nd.full_name)
    for nd in graph.nodes:
        got = names_set(nd.parents)
        want = expected_parents.get(id(nd), set())
        if got != want:
            return 'parents of %s are %s but the nodes that list it as a child are %s' % (nd.full_name, sorted(got), sorted(want))
        for p in nd.parents:
            if by_name.get((str(p.asset.name), str(p.name))) is not p:
                return 'parent %s of %s is not the graph node of that name' % (p.full_name, nd.full_name)
    return ''
