"""Helper process for C16: generate an attack graph from picks in a fresh interpreter and print a digest of its serialisation.
usage: python -m xh.c16_digest SCRATCH T0 T1 DP L02 L102 L12 ATT"""
import hashlib
import json
import sys
import os

sys.path.insert(0, os.path.dirname(os.path.dirname(os.path.abspath(__file__))))
from xh import env  # noqa


def main(argv):
    scratch = argv[0]
    env.activate(scratch)
    from xh.h_c16 import build, full_graph
    args = [int(x) for x in argv[1:]]
    spec, lg, lcf, m, assets = build(*args)
    g = full_graph(lg, m)
    d = json.dumps(g._to_dict(), sort_keys=False, default=str)
    print('DIGEST ' + hashlib.sha256(d.encode()).hexdigest())


if __name__ == '__main__':
    main(sys.argv[1:])
