"""Replay recorded inputs against the real code in a plain interpreter (no CrossHair).

usage: python -m xh.replay [--scratch DIR] [--json] FILE...
FILE is a replay record {property, prop_mod, query, cube, args, ...}.
exit 1 if any record reproduces a failure, 0 otherwise.
"""
from __future__ import annotations

import importlib
import json
import os
import sys

sys.path.insert(0, os.path.dirname(os.path.dirname(os.path.abspath(__file__))))

from xh import env  # noqa: E402


def _alarm(signum, frame):
    raise TimeoutError('record did not finish within the replay time limit')


def run_record(rec: dict) -> str:
    from xh import rt
    H = importlib.import_module(rec['prop_mod'])
    q = H.get_query(rec['query'], rec.get('tier', 'quick'))
    return rt.run_body(q.body, rec['cube'], dict(rec['args']))


def main(argv):
    scratch = None
    as_json = False
    files = []
    it = iter(argv)
    for a in it:
        if a == '--scratch':
            scratch = next(it)
        elif a == '--json':
            as_json = True
        else:
            files.append(a)
    own = scratch is None
    if own:
        scratch = env.make_scratch()
    rc = 0
    try:
        env.activate(scratch)
        assert 'crosshair' not in sys.modules or os.environ.get('XH_ALLOW_CROSSHAIR'), 'replay must not load crosshair'
        for f in files:
            with open(f) as fh:
                rec = json.load(fh)
            import signal
            signal.signal(signal.SIGALRM, _alarm)
            signal.alarm(int(os.environ.get('XH_REPLAY_LIMIT', '300')))
            try:
                text = run_record(rec)
            except BaseException as e:  # noqa
                text = 'REPLAY-ERROR %s: %s' % (type(e).__name__, e)
            finally:
                signal.alarm(0)
            out = {'file': f, 'property': rec.get('property'), 'reproduced': text != '', 'text': text}
            if text != '':
                rc = 1
            if as_json:
                print(json.dumps(out))
            else:
                print(('REPRODUCED' if text else 'not reproduced') + ' property=%s file=%s %s' % (
                    rec.get('property'), f, text))
    finally:
        if own:
            env.remove_scratch(scratch)
    return rc


if __name__ == '__main__':
    sys.exit(main(sys.argv[1:]))
