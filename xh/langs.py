"""Fixture languages as langspec dicts (the layout LanguageGraph.__init__ consumes) and a reference
evaluator of MAL step expressions over plain relations (never reads a Model)."""
from __future__ import annotations

import copy

from xh.rt import notrace


# ------------------------------------------------------------------ expression constructors
def fld(n):
    return {'type': 'field', 'name': n}


def astep(n):
    return {'type': 'attackStep', 'name': n}


def collect(l, r):
    return {'type': 'collect', 'lhs': l, 'rhs': r}


def union(l, r):
    return {'type': 'union', 'lhs': l, 'rhs': r}


def inter(l, r):
    return {'type': 'intersection', 'lhs': l, 'rhs': r}


def diff(l, r):
    return {'type': 'difference', 'lhs': l, 'rhs': r}


def var(n):
    return {'type': 'variable', 'name': n}


def trans(e):
    return {'type': 'transitive', 'stepExpression': e}


def sub(t, e):
    return {'type': 'subType', 'subType': t, 'stepExpression': e}


def to(e, stepname):
    """expression e followed by attack step `stepname`"""
    return collect(e, astep(stepname))


def show(e):
    t = e['type']
    if t in ('field', 'attackStep'):
        return e['name']
    if t == 'variable':
        return e['name'] + '()'
    if t == 'collect':
        return '%s.%s' % (show(e['lhs']), show(e['rhs']))
    if t in ('union', 'intersection', 'difference'):
        return '(%s %s %s)' % (show(e['lhs']), {'union': '\\/', 'intersection': '/\\', 'difference': '-'}[t], show(e['rhs']))
    if t == 'transitive':
        return show(e['stepExpression']) + '*'
    if t == 'subType':
        return '%s[%s]' % (show(e['stepExpression']), e['subType'])
    return '?'


# ------------------------------------------------------------------ spec constructors
def step(name, typ='or', reaches=None, overrides=True, requires=None, ttc=None, tags=(), meta=None):
    return {'name': name, 'meta': dict(meta or {}), 'type': typ, 'tags': list(tags), 'risk': None, 'ttc': ttc,
            'requires': ({'overrides': True, 'stepExpressions': list(requires)} if requires is not None else None),
            'reaches': ({'overrides': overrides, 'stepExpressions': list(reaches)} if reaches is not None else None)}


def asset(name, sup=None, abstract=False, steps=(), variables=(), category='C1', meta=None):
    return {'name': name, 'meta': dict(meta or {}), 'category': category, 'isAbstract': abstract, 'superAsset': sup,
            'variables': [{'name': n, 'stepExpression': e} for n, e in variables], 'attackSteps': list(steps)}


def assoc(name, la, lf, lmult, ra, rf, rmult, meta=None):
    return {'name': name, 'meta': dict(meta or {}), 'leftAsset': la, 'leftField': lf,
            'leftMultiplicity': {'min': lmult[0], 'max': lmult[1]},
            'rightAsset': ra, 'rightField': rf, 'rightMultiplicity': {'min': rmult[0], 'max': rmult[1]}}


def spec(assets, associations, lang_id='verif.lang', version='1.0.0'):
    cats = []
    for a in assets:
        if a['category'] not in [c['name'] for c in cats]:
            cats.append({'name': a['category'], 'meta': {}})
    return {'formatVersion': '1.0.0', 'defines': {'id': lang_id, 'version': version}, 'categories': cats,
            'assets': list(assets), 'associations': list(associations)}


MANY = (0, None)
ENABLED = {'type': 'function', 'name': 'Enabled', 'arguments': []}
DISABLED = {'type': 'function', 'name': 'Disabled', 'arguments': []}
EXPO = {'type': 'function', 'name': 'Exponential', 'arguments': [0.1]}


# ------------------------------------------------------------------ L_SET
def lset_catalogue():
    """(step name, expression) pairs; every expression ends in asset type N, step t."""
    q, s, p, r = fld('q'), fld('s'), fld('p'), fld('r')
    v = var('v')       # v() = q \/ s
    cat = [
        ('f_q', q), ('f_s', s), ('f_p', p), ('f_r', r),
        ('c_qs', collect(q, s)), ('c_qq', collect(q, q)), ('c_qp', collect(q, p)), ('c_sq', collect(s, q)),
        ('u_qs', union(q, s)), ('u_sq', union(s, q)), ('u_qp', union(q, p)), ('u_qq', union(q, q)),
        ('i_qs', inter(q, s)), ('i_sq', inter(s, q)), ('i_qp', inter(q, p)),
        ('d_qs', diff(q, s)), ('d_sq', diff(s, q)), ('d_qp', diff(q, p)), ('d_qq', diff(q, q)),
        ('t_q', trans(q)), ('t_s', trans(s)), ('t_p', trans(p)),
        ('v_v', v), ('v_vq', collect(v, q)), ('v_qv', collect(q, v)),
        ('n_uq_dq', diff(union(q, s), q)), ('n_q_isq', collect(q, inter(s, q))), ('n_dqs_tq', collect(diff(q, s), trans(q))),
        ('n_u_cqs_s', union(collect(q, s), s)), ('n_i_uqs_p', inter(union(q, s), p)), ('n_d_q_cqq', diff(q, collect(q, q))),
        ('n_tq_s', collect(trans(q), s)), ('n_s_tq', collect(s, trans(q))), ('n_uu', union(union(q, s), p)),
        ('n_dd', diff(diff(q, s), p)), ('n_ud', union(q, diff(s, q))), ('n_id', inter(q, diff(q, s))),
        ('n_v_d', diff(v, s)), ('n_tq_iv', inter(trans(q), v)),
        ('n_q_sub_isq', collect(q, sub('N', inter(s, q)))), ('n_q_sub_dqs', collect(q, sub('N', diff(q, s)))),
    ]
    return cat


def L_SET():
    cat = lset_catalogue()
    steps = [step('t', 'or', reaches=None)]
    for name, e in cat:
        steps.append(step('e_' + name, 'or', reaches=[to(e, 't')]))
    # two expressions on one step, and a direct local step
    steps.append(step('e_two', 'or', reaches=[to(fld('q'), 't'), to(fld('s'), 't'), astep('t')]))
    # steps that can reach themselves: through a link back to the same asset, and locally
    steps.append(step('loop', 'or', reaches=[to(fld('q'), 'loop')]))
    steps.append(step('selfstep', 'or', reaches=[astep('selfstep'), astep('t')]))
    a = asset('N', steps=steps, variables=[('v', union(fld('q'), fld('s')))])
    return spec([a], [assoc('PQ', 'N', 'p', MANY, 'N', 'q', MANY), assoc('RS', 'N', 'r', MANY, 'N', 's', MANY)],
                lang_id='verif.lset')


# ------------------------------------------------------------------ reference evaluator
class Rel:
    """Instance-level link relation given as plain data.
    fields: {fieldname: {asset index: set(asset indexes reached through that field)}}
    types:  [type name per asset]; sup: {type: super type or None}; variables: {type: {name: expr}}"""

    def __init__(self, n, types, sup, variables):
        self.n = n
        self.types = types
        self.sup = sup
        self.variables = variables
        self.fields = {}

    def add_link(self, lfield, li, rfield, ri):
        """association instance with asset li in field lfield and asset ri in field rfield:
        navigating rfield from li reaches ri, navigating lfield from ri reaches li."""
        self.fields.setdefault(rfield, {}).setdefault(li, set()).add(ri)
        self.fields.setdefault(lfield, {}).setdefault(ri, set()).add(li)

    def is_sub(self, t, anc):
        while t is not None:
            if t == anc:
                return True
            t = self.sup.get(t)
        return False

    def lookup_var(self, t, name):
        while t is not None:
            if name in self.variables.get(t, {}):
                return self.variables[t][name]
            t = self.sup.get(t)
        raise KeyError(name)


def ev(rel, e, S, static_type):
    """MAL set semantics: returns (lower, upper) bounds as sets of asset indexes (equal except for transitive)."""
    t = e['type']
    if t == 'field':
        out = set()
        for x in S:
            out |= rel.fields.get(e['name'], {}).get(x, set())
        return out, out
    if t == 'collect':
        # a.b = union over every asset y reached by a of y.b: the right-hand side is relative to ONE asset
        # (this matters for intersection, difference and variables inside it)
        lo, up = ev(rel, e['lhs'], S, static_type)
        lo2, up2 = set(), set()
        for y in lo:
            lo2 |= ev(rel, e['rhs'], {y}, None)[0]
        for y in up:
            up2 |= ev(rel, e['rhs'], {y}, None)[1]
        return lo2, up2
    if t in ('union', 'intersection', 'difference'):
        llo, lup = ev(rel, e['lhs'], S, static_type)
        rlo, rup = ev(rel, e['rhs'], S, static_type)
        if t == 'union':
            return llo | rlo, lup | rup
        if t == 'intersection':
            return llo & rlo, lup & rup
        return llo - rup, lup - rlo
    if t == 'variable':
        # definition found on the nearest ancestor of the type of the assets it is applied to
        lo, up = set(), set()
        for x in S:
            d = rel.lookup_var(rel.types[x], e['name'])
            a, b = ev(rel, d, {x}, None)
            lo |= a
            up |= b
        return lo, up
    if t == 'subType':
        lo, up = ev(rel, e['stepExpression'], S, static_type)
        f = lambda xs: set(x for x in xs if rel.is_sub(rel.types[x], e['subType']))
        return f(lo), f(up)
    if t == 'transitive':
        # closure+ <= result <= closure*
        cur = set()
        frontier = set(S)
        while True:
            nxt, _ = ev(rel, e['stepExpression'], frontier, None)
            new = nxt - cur
            if not new:
                break
            cur |= new
            frontier = new
        return cur, cur | set(S)
    raise ValueError('reference evaluator: unknown expression type %r' % t)


def split_target(e):
    """reaches expression -> (navigation expression or None, step name)."""
    if e['type'] == 'attackStep':
        return None, e['name']
    if e['type'] == 'collect':
        nav, name = split_target(e['rhs'])
        if nav is None:
            return e['lhs'], name
        return collect(e['lhs'], nav), name
    raise ValueError('reaches expression does not end in an attack step: %r' % (e,))


# ------------------------------------------------------------------ real objects
def build_lang(spec_dict):
    """Fresh LanguageGraph + classes factory from a private deep copy of the spec (untraced: concrete input)."""
    from xh import stubs
    stubs.install()
    from maltoolbox.language import LanguageGraph, LanguageClassesFactory
    with notrace():
        lg = LanguageGraph(copy.deepcopy(spec_dict))
        lcf = LanguageClassesFactory(lg)
    return lg, lcf


# ------------------------------------------------------------------ L_INH
MITRE = {'mitre': 'T1078'}


def L_INH(cs=None):
    """P <- A <- {G1, G2}, O separate.  cs = (cP, cA, cG1, cG2) selects how each level declares step `s`:
    0 nothing / 1 `s` without reaches / 2 `s -> t<level>` / 3 `s +> t<level>` (family F_INH); default (2, 3, 0, 1)."""
    cs = cs or (2, 3, 0, 1)
    lv = ['P', 'A', 'G1', 'G2']

    def s_decl(i):
        c = cs[i]
        if c == 0:
            return []
        if c == 1:
            return [step('s', 'or')]
        return [step('s', 'or', reaches=[astep('t' + lv[i])], overrides=(c == 2))]

    targets = [step('t' + x, 'or') for x in lv]
    P = asset('P', abstract=True, variables=[('vv', fld('os'))], steps=targets + s_decl(0) + [
        step('dP', 'defense', reaches=[astep('tP')], ttc=ENABLED, tags=['hidden', 'suppress'], meta=MITRE),
        step('viaVar', 'or', reaches=[to(var('vv'), 'tO')]),
        step('toG1', 'or', reaches=[to(collect(sub('G1', collect(fld('os'), fld('ps'))), fld('os')), 'tO')]),
        step('spread', 'or', reaches=[to(trans(fld('down')), 'tP')]),      # transitive over a field declared on the abstract root
    ])
    A = asset('Am', sup='P', steps=s_decl(1) + [
        step('dA', 'defense', reaches=[astep('tA')], ttc=DISABLED),
        step('viaVar', 'or', reaches=[to(var('vv'), 'back')], overrides=False),     # '+>' extension that itself uses a variable
        step('timed', 'and', reaches=[astep('tA')], ttc=EXPO, tags=['x', 'y']),
        step('tP', 'or', ttc=EXPO, tags=['re']),       # names an inherited step again without reaches: leaves it untouched
    ])
    G1 = asset('G1', sup='Am', steps=s_decl(2) + [
        step('dG', 'defense', reaches=[astep('tG1')], ttc=None),
        step('ex', 'exist', requires=[fld('os')], reaches=[astep('tG1')]),
        step('nex', 'notExist', requires=[fld('os1')], reaches=[astep('tG1')]),
        step('dP', 'defense', reaches=[astep('tG1')], ttc=ENABLED, overrides=False),
        # '->' redefinitions that differ from the inherited declaration in type, TTC, tags and meta
        step('timed', 'or', reaches=[astep('tG1')], ttc=None, tags=['z'], meta=MITRE),
    ])
    G2 = asset('G2', sup='Am', steps=s_decl(3) + [
        step('timed', 'and', reaches=[astep('tG2')], ttc=ENABLED, tags=[]),
        step('gex', 'exist', requires=[fld('os2')], reaches=[astep('tG2')]),
    ])
    G3 = asset('G3', sup='G1', steps=[])        # a type without any step of its own
    G4 = asset('G4', sup='G1', steps=[step('ex', 'exist', requires=[fld('os1')], reaches=[astep('tG1')], overrides=False)])
    Q = asset('Q', steps=[step('tQ', 'or')], category='C2')
    O = asset('O', steps=[step('tO', 'or'), step('back', 'or', reaches=[to(fld('ps'), 'tP')]),
                          step('exO', 'exist', requires=[sub('G1', fld('ps'))]),
                          # subtype filters whose matching instances are children and grandchildren of the filter type
                          step('viaP', 'or', reaches=[to(sub('P', fld('ps')), 'tP'), to(sub('Am', fld('ps')), 'tA')]),
                          step('chain', 'or', reaches=[to(fld('nxt'), 'tO'), to(trans(fld('prv')), 'tO')]),
                          step('hasNext', 'exist', requires=[fld('nxt')]), step('noPrev', 'notExist', requires=[fld('prv')]),
                          # a defense with the same name as P's but the opposite default
                          step('dP', 'defense', reaches=[astep('tO')], ttc=DISABLED)], category='C2')
    assocs = [assoc('L', 'P', 'ps', MANY, 'O', 'os', MANY),
              assoc('L1', 'P', 'ps1', (0, 1), 'O', 'os1', (1, 1)),
              assoc('L2', 'Am', 'as2', (1, None), 'O', 'os2', (0, 2)),
              assoc('Dup', 'G1', 'dg1', MANY, 'O', 'do1', MANY),
              assoc('Dup', 'G2', 'dg2', MANY, 'O', 'do2', MANY),
              assoc('Chain', 'O', 'prv', MANY, 'O', 'nxt', MANY),
              # same name AND same field names between different pairs of types
              assoc('Same', 'G1', 'sh', MANY, 'O', 'sk', MANY),
              assoc('Same', 'G2', 'sh', MANY, 'Q', 'sk', MANY),
              # a class name that sorts after the key 'extras'
              assoc('zlink', 'Am', 'za', MANY, 'O', 'zo', MANY),
              assoc('Tree', 'P', 'up', MANY, 'P', 'down', MANY),
              # same name, the same two types in opposite roles
              assoc('Rev', 'G1', 'ra', MANY, 'Q', 'rb', MANY), assoc('Rev', 'Q', 'rc', MANY, 'G1', 'rd', MANY)]
    return spec([P, A, G1, G2, O, G3, Q, G4], assocs, lang_id='verif.linh')


INH_SUP = {'P': None, 'Am': 'P', 'G1': 'Am', 'G2': 'Am', 'O': None, 'G3': 'G1', 'Q': None, 'G4': 'G1'}


def ref_fold(spec_dict, tname):
    """Attack steps a type exposes, folded root-down as the property text says. Returns {name: declaration dict}
    with 'reaches' = None or {'stepExpressions': [...]}; the first declaration fixes type/ttc/tags/meta unless overridden by '->'."""
    by = {a['name']: a for a in spec_dict['assets']}
    chain = []
    t = tname
    while t is not None:
        chain.append(by[t])
        t = by[t]['superAsset']
    chain.reverse()
    out = {}
    for a in chain:
        for st in a['attackSteps']:
            n = st['name']
            if n not in out:
                out[n] = copy.deepcopy(st)
            elif not st['reaches']:
                continue
            elif st['reaches']['overrides']:
                out[n] = copy.deepcopy(st)
            else:
                inh = out[n]['reaches']['stepExpressions'] if out[n]['reaches'] else []
                out[n]['reaches'] = {'overrides': False if not out[n]['reaches'] else out[n]['reaches']['overrides'],
                                     'stepExpressions': list(inh) + copy.deepcopy(st['reaches']['stepExpressions'])}
    return out


def rel_for(spec_dict, types):
    by = {a['name']: a for a in spec_dict['assets']}
    sup = {n: a['superAsset'] for n, a in by.items()}
    variables = {n: {v['name']: v['stepExpression'] for v in a['variables']} for n, a in by.items()}
    return Rel(len(types), list(types), sup, variables)


# ------------------------------------------------------------------ L_UNI / F_ILL
def L_UNI():
    """S has fields x1 -> B1, x2 -> B2, xb -> B; B1, B2 extend B; set operators over sibling types."""
    B = asset('B', steps=[step('t', 'or')], variables=[])
    B1 = asset('B1', sup='B', steps=[step('only1', 'or')])
    B2 = asset('B2', sup='B', steps=[])
    S = asset('S', steps=[
        step('eu', 'or', reaches=[to(union(fld('x1'), fld('x2')), 't')]),
        step('eu2', 'or', reaches=[to(union(fld('x2'), fld('x1')), 't')]),
        step('ei', 'or', reaches=[to(inter(fld('xb'), fld('x1')), 't')]),
        step('ed', 'or', reaches=[to(diff(fld('xb'), fld('x2')), 't')]),
        step('eb', 'or', reaches=[to(union(fld('x1'), fld('xb')), 't')]),
        step('es', 'or', reaches=[to(sub('B1', fld('xb')), 'only1')]),
    ])
    return spec([B, B1, B2, S], [assoc('A1', 'S', 's1', MANY, 'B1', 'x1', MANY), assoc('A2', 'S', 's2', MANY, 'B2', 'x2', MANY),
                                  assoc('AB', 'S', 'sb', MANY, 'B', 'xb', MANY)], lang_id='verif.luni')


def L_SYM():
    R = asset('R', steps=[step('t', 'or'), step('hop', 'or', reaches=[to(fld('nb'), 't')])])
    R2 = asset('R2', sup='R', steps=[])
    W = asset('W', steps=[step('t', 'or'), step('hop', 'or', reaches=[to(fld('nb'), 't')])])
    X = asset('X', steps=[step('t', 'or')])
    return spec([R, R2, W, X], [assoc('Link', 'R', 'nb', MANY, 'W', 'nb', MANY), assoc('Up', 'W', 'ws', MANY, 'X', 'xs', (0, 1))], lang_id='verif.lsym')


def L_ROLE():
    """Host is known as `owner` to its VMs and has its own field `owner` (-> User) through a later association."""
    Host = asset('Host', steps=[step('access', 'or', reaches=[to(fld('owner'), 'compromise'), to(fld('vms'), 'compromise')]), step('compromise', 'or')])
    VM = asset('VM', steps=[step('compromise', 'or', reaches=[to(fld('owner'), 'access')])])
    User = asset('User', steps=[step('compromise', 'or', reaches=[to(fld('hosts'), 'access')])])
    return spec([Host, VM, User], [assoc('Hosting', 'Host', 'owner', MANY, 'VM', 'vms', MANY),
                                   assoc('Owns', 'User', 'owner', MANY, 'Host', 'hosts', MANY)], lang_id='verif.lrole')


def L_TWIN():
    """Two associations that share both field names between different pairs of types."""
    Host = asset('Host', steps=[step('t', 'or', reaches=[to(fld('items'), 't')])])
    Disk = asset('Disk', steps=[step('t', 'or')])
    Net = asset('Net', steps=[step('t', 'or', reaches=[to(fld('items'), 't')])])
    Packet = asset('Packet', steps=[step('t', 'or', reaches=[to(fld('owner'), 't')])])
    return spec([Host, Disk, Net, Packet], [assoc('Holds', 'Host', 'owner', MANY, 'Disk', 'items', MANY),
                                            assoc('Carries', 'Net', 'owner', MANY, 'Packet', 'items', MANY)], lang_id='verif.ltwin')


ILL = ['unknown super asset', 'unknown association end (left)', 'unknown association end (right)',
       'step target missing on the static type', 'unknown field in a step expression',
       'unknown left end of an association no expression uses', 'unknown right end of an association no expression uses',
       'step defined only on a sub-asset of the static target type']


def F_ILL(k):
    sp = L_INH()
    if k == 0:
        sp['assets'][2]['superAsset'] = 'Nope'
    elif k == 1:
        sp['associations'][0]['leftAsset'] = 'Nope'
    elif k == 2:
        sp['associations'][1]['rightAsset'] = 'Nope'
    elif k == 3:
        sp['assets'][4]['attackSteps'][1]['reaches']['stepExpressions'] = [to(fld('ps'), 'nosuchstep')]
    elif k == 4:
        sp['assets'][4]['attackSteps'][1]['reaches']['stepExpressions'] = [to(fld('nofield'), 'tP')]
    elif k == 5:
        sp['associations'].append(assoc('Bad', 'Nope', 'bf', MANY, 'O', 'bg', MANY))
    elif k == 6:
        sp['associations'].append(assoc('Bad', 'O', 'bf', MANY, 'Nope', 'bg', MANY))
    else:
        sp['assets'][4]['attackSteps'][1]['reaches']['stepExpressions'] = [to(fld('ps'), 'dG')]      # dG exists on G1 only, ps is typed P
    return sp
