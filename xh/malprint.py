"""Minimal-parenthesis printer of a language specification as MAL source text (kept in /verif; written from mal.g4).

Precedence (loosest to tightest): set operators (\\/ /\\ -, one level, left-associative) < collect '.' (left-associative)
< postfix '*' and '[T]'.  TTC: + - < * / (left-associative) < ^ (non-associative)."""
from __future__ import annotations

SETOPS = {'union': '\\/', 'intersection': '/\\', 'difference': '-'}


def expr(e, ctx='top'):
    """ctx: 'top' (set level), 'setrhs' (right operand of a set operator), 'dot' (operand of '.'), 'dotrhs', 'post' (operand of * or [T])."""
    t = e['type']
    if t in ('field', 'attackStep'):
        return e['name']
    if t == 'variable':
        return e['name'] + '()'
    if t == 'transitive':
        inner = expr(e['stepExpression'], 'post')
        if e['stepExpression']['type'] in ('subType', 'transitive'):
            inner = '(' + inner + ')'       # grammar: part = atom STAR? type*  (the star binds before the types)
        return inner + '*'
    if t == 'subType':
        return expr(e['stepExpression'], 'post') + '[' + e['subType'] + ']'
    if t == 'collect':
        s = expr(e['lhs'], 'dot') + '.' + expr(e['rhs'], 'dotrhs')
        return '(' + s + ')' if ctx in ('post', 'dotrhs') else s
    if t in SETOPS:
        s = expr(e['lhs'], 'top') + ' ' + SETOPS[t] + ' ' + expr(e['rhs'], 'setrhs')
        return '(' + s + ')' if ctx != 'top' else s
    raise ValueError(t)


def num(v):
    if float(v) == int(v):
        return str(int(v))
    return repr(float(v))


TTCOP = {'addition': ('+', 1), 'subtraction': ('-', 1), 'multiplication': ('*', 2), 'division': ('/', 2), 'exponentiation': ('^', 3)}


def ttc(t, prec=0, right=False):
    if t['type'] == 'number':
        return num(t['value'])
    if t['type'] == 'function':
        if t['arguments']:
            return '%s(%s)' % (t['name'], ', '.join(num(a) for a in t['arguments']))
        return t['name']
    op, p = TTCOP[t['type']]
    if p == 3:
        s = ttc(t['lhs'], 4) + ' ^ ' + ttc(t['rhs'], 4)
    else:
        s = ttc(t['lhs'], p) + ' ' + op + ' ' + ttc(t['rhs'], p, True)
    if p < prec or (p == prec and right) or (p == 3 and prec >= 3):
        return '(' + s + ')'
    return s


def meta(m, ind):
    return ''.join('%s%s info: "%s"\n' % (ind, k, v) for k, v in m.items())


STEPSYM = {'or': '|', 'and': '&', 'defense': '#', 'exist': 'E', 'notExist': '!E'}


def step(s):
    out = '    ' + STEPSYM[s['type']] + ' ' + s['name']
    for tg in s['tags']:
        out += ' @' + tg
    if s['risk'] is not None:
        cia = [c for c, k in (('C', 'isConfidentiality'), ('I', 'isIntegrity'), ('A', 'isAvailability')) if s['risk'][k]]
        out += ' {' + ', '.join(cia) + '}'
    if s['ttc'] is not None:
        out += ' [' + ttc(s['ttc']) + ']'
    out += '\n'
    out += meta(s['meta'], '      ')
    if s['requires'] is not None:
        out += '      <- ' + ',\n         '.join(expr(e) for e in s['requires']['stepExpressions']) + '\n'
    if s['reaches'] is not None:
        out += '      ' + ('->' if s['reaches']['overrides'] else '+>') + ' ' + \
               ',\n         '.join(expr(e) for e in s['reaches']['stepExpressions']) + '\n'
    return out


def asset(a):
    out = '  ' + ('abstract ' if a['isAbstract'] else '') + 'asset ' + a['name']
    if a['superAsset']:
        out += ' extends ' + a['superAsset']
    out += '\n' + meta(a['meta'], '    ') + '  {\n'
    for v in a['variables']:
        out += '    let %s = %s\n' % (v['name'], expr(v['stepExpression']))
    for s in a['attackSteps']:
        out += step(s)
    return out + '  }\n'


def mult(m):
    lo, hi = m['min'], m['max']
    if hi is None:
        return '*' if lo == 0 else '%d..*' % lo
    if lo == hi:
        return str(lo)
    return '%d..%d' % (lo, hi)


def association(a):
    return '  %s [%s] %s <-- %s --> %s [%s] %s\n%s' % (
        a['leftAsset'], a['leftField'], mult(a['leftMultiplicity']), a['name'], mult(a['rightMultiplicity']),
        a['rightField'], a['rightAsset'], meta(a['meta'], '    '))


def defines(spec):
    return ''.join('#%s: "%s"\n' % (k, v) for k, v in spec['defines'].items())


def categories(spec, names=None):
    out = ''
    for c in spec['categories']:
        if names is not None and c['name'] not in names:
            continue
        out += 'category %s\n%s{\n' % (c['name'], meta(c['meta'], '  '))
        for a in spec['assets']:
            if a['category'] == c['name']:
                out += asset(a)
        out += '}\n'
    return out


def associations(spec):
    if not spec['associations']:
        return ''
    return 'associations {\n' + ''.join(association(a) for a in spec['associations']) + '}\n'


def program(spec):
    return defines(spec) + categories(spec) + associations(spec)


def _split_category(spec):
    """(head, rest): the first asset of the first category in a block of its own / the same category again with its other
    assets followed by the other categories. None unless this keeps the declaration order of the specification."""
    if not spec['categories'] or not spec['assets']:
        return None
    first = spec['categories'][0]
    a0 = spec['assets'][0]
    grouped = [a for c in spec['categories'] for a in spec['assets'] if a['category'] == c['name']]
    if a0['category'] != first['name'] or [a['name'] for a in grouped] != [a['name'] for a in spec['assets']]:
        return None
    if len([a for a in spec['assets'] if a['category'] == first['name']]) < 2:
        return None
    head = 'category %s\n%s{\n%s}\n' % (first['name'], meta(first['meta'], '  '), asset(a0))
    rest = ''
    for c in spec['categories']:
        rest += 'category %s\n%s{\n' % (c['name'], meta(c['meta'], '  '))
        for a in spec['assets']:
            if a['category'] == c['name'] and a is not a0:
                rest += asset(a)
        rest += '}\n'
    return head, rest


def layouts(spec):
    """{layout name: {file name: text}}; root file is main.mal."""
    d, c, a = defines(spec), categories(spec), associations(spec)
    extra = {}
    sc = _split_category(spec)
    if sc is not None:
        extra['category_split_over_include'] = {'main.mal': d + 'include "head.mal"\n' + sc[1] + a, 'head.mal': sc[0]}
        extra['category_reopened'] = {'main.mal': d + sc[0] + sc[1] + a}
    def commented(text):
        out = ['// leading comment with tokens: asset X { | s -> t }', '/* block', '   comment #id: "zz" */']
        for ln in text.split('\n'):
            out.append(ln + ('   // trailing' if ln.strip().endswith('{') else ''))
            if ln.startswith('category') or ln.startswith('associations'):
                out.append('\t/* inline */')
        return '\r\n'.join(out) + '\n// eof without newline'
    extra['with_comments'] = {'main.mal': commented(d + c + a)}
    return dict(extra, **{
        'single': {'main.mal': d + c + a},
        'assets_included': {'main.mal': d + 'include "cats.mal"\n' + a, 'cats.mal': c},
        'assocs_included': {'main.mal': d + c + 'include "assocs.mal"\n', 'assocs.mal': a if a else 'associations {\n}\n'},
        'include_twice': {'main.mal': d + 'include "cats.mal"\n' + 'include "cats.mal"\n' + a, 'cats.mal': c},
        'nested': {'main.mal': 'include "mid.mal"\n' + a, 'mid.mal': d + 'include "cats.mal"\n', 'cats.mal': c},
    })
