"""C07 - saving and loading a model preserves it (JSON and YAML)."""
from __future__ import annotations

import itertools
import json
import os

from xh.spec import Query, B, I, getter
from xh.g import idx
from xh.rt import notrace, pick, reclimit
from xh import langs, mb

PROP = 'C07'
FMT = ['json', 'yml', 'yaml']
ID0 = [None, 5, -1]
ID1 = [None, 0, 7]
NAMES = ['srv', 'no', '1:2', 'schön ☃', 'host \U0001F600']
DPV = [None, 0.0, 0.3, 1 / 3, 1e-09]
DGV = [None, 1.0]
_CNT = [0]


def _defense_names(lg, typename):
    t = lg.get_asset_by_name(typename)
    out = []
    for x in [t] + list(t.get_all_superassets()):
        for st in x.attack_steps:
            if st.type == 'defense' and st.name not in out:
                out.append(st.name)
    return sorted(out)


def describe(m, lg=None):
    """Typed, structural description of a model through its public attributes."""
    assets = {}
    for a in m.assets:
        # defense values are read from the asset objects themselves (not through Model.get_asset_defenses, which the writer uses)
        names = _defense_names(lg, str(a.type)) if lg is not None else sorted(m.get_asset_defenses(a, include_defaults=True))
        d = {'name': str(a.name), 'type': str(a.type), 'defenses': {k: float(getattr(a, k)) for k in names},
             'extras': a.extras.as_dict() if hasattr(a.extras, 'as_dict') else dict(a.extras)}
        if type(a.id) is bool or int(a.id) in assets:
            return 'asset id %r duplicated or ill-typed' % (a.id,)
        assets[int(a.id)] = d
    assocs = []
    for x in m.associations:
        f1, f2 = m.get_association_field_names(x)
        ex = x.extras
        ex = ex.as_dict() if hasattr(ex, 'as_dict') else (dict(ex) if ex else {})
        assocs.append((type(x).__name__, str(f1), sorted(int(a.id) for a in getattr(x, f1)), str(f2), sorted(int(a.id) for a in getattr(x, f2)),
                       json.dumps(ex, sort_keys=True)))
        for a in list(getattr(x, f1)) + list(getattr(x, f2)):
            if m.get_asset_by_id(int(a.id)) is not a:
                return 'association member is not the model asset of that id'
    atts = {}
    for t in m.attackers:
        atts[t.id] = {'name': t.name, 'eps': sorted((int(a.id), sorted(s)) for a, s in t.entry_points)}
        for a, s in t.entry_points:
            if m.get_asset_by_id(int(a.id)) is not a:
                return 'attacker entry point is not the model asset of that id'
    return {'name': m.name, 'assets': assets, 'associations': sorted(assocs), 'attackers': atts}


def roundtrip(m, lcf, fmt):
    from maltoolbox.model import Model
    _CNT[0] += 1
    p1 = os.path.join(os.getcwd(), 'c07_%d_%d.%s' % (os.getpid(), _CNT[0], fmt))
    p2 = os.path.join(os.getcwd(), 'c07_%d_%d_b.%s' % (os.getpid(), _CNT[0], fmt))
    try:
        m.save_to_file(p1)
        l = Model.load_from_file(p1, lcf)
        l.save_to_file(p2)
        c1, c2 = open(p1, encoding='utf-8').read(), open(p2, encoding='utf-8').read()
        return l, c1, c2
    finally:
        for p in (p1, p2):
            try:
                os.remove(p)
            except OSError:
                pass


def compare(m, lcf, fmt):
    d0 = describe(m, lcf.lang_graph)
    if isinstance(d0, str):
        return 'original model: ' + d0
    td0 = m._to_dict()
    l, c1, c2 = roundtrip(m, lcf, fmt)
    d1 = describe(l, lcf.lang_graph)
    if isinstance(d1, str):
        return 'loaded model: ' + d1
    for k in ('name', 'assets', 'associations', 'attackers'):
        if d0[k] != d1[k]:
            return 'after save/load (%s) %s differ: %r became %r' % (fmt, k, d0[k], d1[k])
    if l._to_dict() != td0:
        return '_to_dict of the loaded model differs from the original (%s)' % fmt
    if c1 != c2:
        return 'saving the loaded model does not reproduce the file content (%s)' % fmt
    return ''


def _base(lcf, id0, id1, name0, with_a2):
    from maltoolbox.model import Model
    m = Model('model é', lcf)
    a0 = lcf.ns.G1(name=name0)
    m.add_asset(a0, asset_id=id0)
    a1 = lcf.ns.O(name='o1')
    m.add_asset(a1, asset_id=id1)
    assets = [a0, a1]
    if with_a2:
        a2 = lcf.ns.G2(name='g2')
        m.add_asset(a2)
        assets.append(a2)
    return m, assets


def _attackers(m, assets, cfg):
    from maltoolbox.model import AttackerAttachment
    if cfg >= 1:
        t = AttackerAttachment(name='att A')
        m.add_attacker(t)
        t.add_entry_point(assets[0], 's'); t.add_entry_point(assets[0], 'tP'); t.add_entry_point(assets[1], 'tO')
    if cfg >= 2:
        t = AttackerAttachment(name='att B')
        m.add_attacker(t, attacker_id=40)
        t.add_entry_point(assets[1], 'back')
        t = AttackerAttachment(name='idle attacker')        # no entry points at all
        m.add_attacker(t, attacker_id=41)


def body_ids(cube, **kw):
    fmt = pick(kw['fmt'], FMT)
    id0, id1, name0 = pick(kw['i0'], ID0), pick(kw['i1'], ID1), pick(kw['nm'], NAMES)
    a2, att = bool(kw['a2']), idx(kw['att'], 3)
    with notrace(), reclimit():
        lg, lcf = langs.build_lang(langs.L_INH())
        m, assets = _base(lcf, id0, id1, name0, a2)
        mb.add_link(m, lcf, 'L', 'ps', [assets[0]], 'os', [assets[1]])
        _attackers(m, assets, att)
        return compare(m, lcf, fmt)


def body_attrs(cube, **kw):
    fmt = pick(kw['fmt'], FMT)
    dp, dg = pick(kw['dp'], DPV), pick(kw['dg'], DGV)
    xa, xl = bool(kw['xa']), bool(kw['xl'])
    l0, l1, l2 = bool(kw['l0']), bool(kw['l1']), bool(kw['l2'])
    att = idx(kw['att'], 3)
    do = idx(kw['do'], 3) if 'do' in kw else 0
    kw_l3 = bool(kw['l3']) if 'l3' in kw else False
    with notrace(), reclimit():
        lg, lcf = langs.build_lang(langs.L_INH())
        m, assets = _base(lcf, None, None, 'srv', True)
        if dp is not None:
            assets[0].dP = dp
        if dg is not None:
            assets[0].dG = dg
            assets[2].dA = 0.5
        if do:
            assets[1].dP = [None, 1.0, 0.5][do]     # O.dP defaults to 0, G1.dP to 1: 1.0 equals the other type's default
        if xa:
            assets[0].extras = {'pos': {'x': 1, 'y': 2.5}, 'tag': 'n', 'zero': 0, 'empty': '', 'off': False,
                                'ports': {'80': 'http', '-1': 'x', '007': 1}}
        links = []
        if l0:
            links.append(mb.add_link(m, lcf, 'L', 'ps', [assets[0], assets[2]], 'os', [assets[1]]))
        if l1:
            links.append(mb.add_link(m, lcf, 'Dup_G1_O', 'dg1', [assets[0]], 'do1', [assets[1]]))
            links.append(mb.add_link(m, lcf, 'Dup_G2_O', 'dg2', [assets[2]], 'do2', [assets[1]]))
        if l2:
            links.append(mb.add_link(m, lcf, 'L2', 'as2', [assets[2]], 'os2', [assets[1]]))
        if kw_l3:
            links.append(mb.add_link(m, lcf, 'zlink', 'za', [assets[0]], 'zo', [assets[1]]))
        if xl and links:
            links[0].extras = {'note': 'link', 'w': 3}
            links[-1].extras = {'last': True}
        _attackers(m, assets, att)
        return compare(m, lcf, fmt)


def body_hand(cube, **kw):
    """A hand-written file: assets listed in any order, id 0, type-only shorthand."""
    from maltoolbox.model import Model
    from maltoolbox.file_utils import save_dict_to_file
    perm = pick(kw['perm'], list(itertools.permutations(range(3))))
    short = bool(kw['short'])
    via = idx(kw['via'], 4)   # 0 = _from_dict directly, 1..3 = through a file of that format
    with notrace(), reclimit():
        lg, lcf = langs.build_lang(langs.L_INH())
        entries = [(0, {'name': 'zero', 'type': 'O'}), (4, {'name': 'four', 'type': 'G1', 'defenses': {'dP': 0.25}}),
                   (2, ('G2' if short else {'name': 'G2:2', 'type': 'G2'}))]
        assets = {}
        for i in perm:
            k, v = entries[i]
            assets[k if via == 0 else str(k)] = v
        key = (lambda k: k) if via == 0 else str
        d = {'metadata': {'name': 'hand', 'langVersion': '1.0.0', 'langID': 'verif.linh'},
             'assets': assets,
             'associations': [{'L': {'ps': [4, 2], 'os': [0]}}],
             'attackers': {key(9): {'name': 'h', 'entry_points': {key(0): {'attack_steps': ['tO']}, key(4): {'attack_steps': ['s']}}}}}
        if via == 0:
            m = Model._from_dict(d, lcf)
        else:
            _CNT[0] += 1
            p = os.path.join(os.getcwd(), 'c07h_%d_%d.%s' % (os.getpid(), _CNT[0], FMT[via - 1]))
            try:
                save_dict_to_file(p, d)
                m = Model.load_from_file(p, lcf)
            finally:
                try:
                    os.remove(p)
                except OSError:
                    pass
        got = describe(m, lcf.lang_graph)
        if isinstance(got, str):
            return got
        want_assets = {0: {'name': 'zero', 'type': 'O', 'defenses': {'dP': 0.0}, 'extras': {}},
                       4: {'name': 'four', 'type': 'G1', 'defenses': {'dP': 0.25, 'dA': 0.0, 'dG': 0.0}, 'extras': {}},
                       2: {'name': 'G2:2', 'type': 'G2', 'defenses': {'dP': 1.0, 'dA': 0.0}, 'extras': {}}}
        if got['assets'] != want_assets:
            return 'hand-written file (order %s, shorthand %s, via %s) loads assets %r, it describes %r' % (
                list(perm), short, ['_from_dict'] + FMT and (['_from_dict'] + FMT)[via], got['assets'], want_assets)
        if got['associations'] != [('L', 'ps', [2, 4], 'os', [0], '{}')] and got['associations'] != [('L', 'os', [0], 'ps', [2, 4], '{}')]:
            return 'hand-written file loads associations %r' % (got['associations'],)
        if got['attackers'] != {9: {'name': 'h', 'eps': [(0, ['tO']), (4, ['s'])]}}:
            return 'hand-written file loads attackers %r' % (got['attackers'],)
        if got['name'] != 'hand':
            return 'model name %r' % got['name']
    return ''


def queries(tier):
    qs = []
    ps = [I('fmt', 0, 2), I('i0', 0, 2), I('i1', 0, 2), I('nm', 0, 4), B('a2'), I('att', 0, 2)]
    qs.append(Query(name='ids', body=body_ids, params=ps, split=['fmt'], timeout=500, pre=['not (i0 == 0 and i1 == 1)'],
                    witnesses=[({}, {'fmt': 0, 'i0': 1, 'i1': 1, 'nm': 2, 'a2': True, 'att': 2}),
                               ({}, {'fmt': 1, 'i0': 2, 'i1': 2, 'nm': 3, 'a2': False, 'att': 1})],
                    bound='L_INH model: asset 0 (G1) with id from %s and name from %r, asset 1 (O) with id from %s (0 not first, gaps, negative), optional third asset, '
                          '0-2 attackers with several entry points, one L link; formats %s' % (ID0, NAMES, ID1, FMT)))
    ps = [I('fmt', 0, 2), I('dp', 0, len(DPV) - 1), I('dg', 0, 1), I('do', 0, 2), B('xa'), B('xl'), B('l0'), B('l1'), B('l2'), B('l3'), I('att', 0, 2)]
    qs.append(Query(name='attrs', body=body_attrs, params=ps, split=['fmt', 'xl', 'dp', 'l0'], timeout=500, pre=['do == 0 or (l2 and not l1)', 'not l3 or (l0 + l1 + l2 <= 1)'],
                    witnesses=[({}, {'fmt': 0, 'dp': 2, 'dg': 1, 'do': 1, 'xa': True, 'xl': True, 'l0': False, 'l1': False, 'l2': True, 'l3': True, 'att': 2}),
                               ({}, {'fmt': 2, 'dp': 1, 'dg': 0, 'do': 0, 'xa': True, 'xl': False, 'l0': True, 'l1': True, 'l2': False, 'l3': False, 'att': 0})],
                    bound='3-asset L_INH model: defense picks dP %s, dG %s (+ dA on the third asset; dP of the O asset, same name as the dP of G1 but default 0, left / set to 1.0 / 0.5), asset extras, association extras, every subset of links '
                          'L (two members in one field), Dup_G1_O + Dup_G2_O (duplicate-named classes), L2; 0-2 attackers; formats %s' % (DPV, DGV, FMT)))
    ps = [I('perm', 0, 5), B('short'), I('via', 0, 3)]
    qs.append(Query(name='hand', body=body_hand, params=ps, timeout=300,
                    witnesses=[({}, {'perm': 3, 'short': True, 'via': 0}), ({}, {'perm': 5, 'short': False, 'via': 2})],
                    bound='hand-written description with asset ids {0, 4, 2} listed in every order, type-only shorthand on/off, loaded through _from_dict '
                          'and through json / yml / yaml files'))
    return qs


META = {
    'bounds': 'L_INH models of 2-3 assets; id, name, defense, extras, link and attacker picks as listed per query; json, yml, yaml',
    'outside': ['names outside the 4 picks (ascii, YAML-significant "no", "1:2", unicode)', 'more than 3 assets / 2 attackers'],
    'stubs': ['pjo MakeLiteral memoised; pjo class building untraced'],
    'assumptions': ['dict key order and the order of members inside an association field are not observed',
                    'all inputs are concrete once the picks are decided: the real code runs untraced on that path'],
    'requires': ['Model._to_dict', 'Model._from_dict', 'Model.asset_to_dict', 'Model.association_to_dict', 'Model.attacker_to_dict',
                 'Model.save_to_file', 'Model.load_from_file', 'save_dict_to_file', 'save_dict_to_yaml_file', 'load_dict_from_json_file'],
}
get_query = getter(queries)
