"""Helpers shared by the attack-graph harnesses (hand-built graphs, well-formedness)."""
from __future__ import annotations

from xh.rt import pick

TYPES5 = ['or', 'and', 'defense', 'exist', 'notExist']


def idx(i, n):
    """Concretise a symbolic int in 0..n-1 by an if-chain (one decision per value)."""
    for k in range(n - 1):
        if i == k:
            return k
    return n - 1


def new_graph():
    from maltoolbox.attackgraph import AttackGraph
    return AttackGraph()


def add_nodes(graph, types, names=None, **kw):
    from maltoolbox.attackgraph import AttackGraphNode
    nodes = []
    for i, t in enumerate(types):
        n = AttackGraphNode(type=t, name=(names[i] if names else 'n%d' % i))
        graph.add_node(n)
        nodes.append(n)
    return nodes


def link(parent, child):
    parent.children.append(child)
    child.parents.append(parent)


def has_identity(xs, x):
    for y in xs:
        if y is x:
            return True
    return False


def count_identity(xs, x):
    c = 0
    for y in xs:
        if y is x:
            c += 1
    return c


def wellformed(graph, seen_ids=(), seen_names=()):
    """C09 structural consistency; returns '' or a description. Identity based."""
    nodes = graph.nodes
    ids = []
    for n in nodes:
        if count_identity(nodes, n) != 1:
            return 'node %s listed twice' % n.full_name
        if n.id in ids:
            return 'id %s given to two nodes' % n.id
        ids.append(n.id)
        if graph.get_node_by_id(n.id) is not n:
            return 'get_node_by_id(%s) does not return the node in the graph' % n.id
        if graph.get_node_by_full_name(n.full_name) is not n:
            return 'get_node_by_full_name(%s) does not return the node in the graph' % n.full_name
        for c in n.children:
            if not has_identity(nodes, c):
                return 'child %s of %s not in graph' % (c.full_name, n.full_name)
            if not has_identity(c.parents, n):
                return 'edge %s->%s not mirrored in parents' % (n.full_name, c.full_name)
        for p in n.parents:
            if not has_identity(nodes, p):
                return 'parent %s of %s not in graph' % (p.full_name, n.full_name)
            if not has_identity(p.children, n):
                return 'edge %s->%s not mirrored in children' % (p.full_name, n.full_name)
        for a in n.compromised_by:
            if not has_identity(graph.attackers, a):
                return 'node %s compromised by attacker %s not in graph' % (n.full_name, a.name)
            if not has_identity(a.reached_attack_steps, n):
                return 'node %s lists attacker %s but not conversely' % (n.full_name, a.name)
    aids = []
    for a in graph.attackers:
        if a.id in aids:
            return 'attacker id %s given twice' % a.id
        aids.append(a.id)
        if graph.get_attacker_by_id(a.id) is not a:
            return 'get_attacker_by_id(%s) does not return the attacker in the graph' % a.id
        for n in a.reached_attack_steps:
            if not has_identity(nodes, n):
                return 'attacker %s reached node %s not in graph' % (a.name, n.full_name)
            if not has_identity(n.compromised_by, a):
                return 'attacker %s lists node %s but not conversely' % (a.name, n.full_name)
        for n in a.entry_points:
            if not has_identity(nodes, n):
                return 'attacker %s entry point %s not in graph' % (a.name, n.full_name)
    for i in seen_ids:
        r = graph.get_node_by_id(i)
        if r is not None and not has_identity(nodes, r):
            return 'stale lookup: get_node_by_id(%s) returns a node not in the graph' % i
    for s in seen_names:
        r = graph.get_node_by_full_name(s)
        if r is not None and not has_identity(nodes, r):
            return 'stale lookup: get_node_by_full_name(%s) returns a node not in the graph' % s
    return ''
