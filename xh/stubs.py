"""Stubs installed from outside (no /repo hook needed). Each is part of the claim (DESIGN 2.3)."""
from __future__ import annotations

from xh.rt import notrace

_INSTALLED = False


def install():
    """Idempotent. Memoise pjo's per-assignment literal class creation; build pjo classes untraced."""
    global _INSTALLED
    if _INSTALLED:
        return
    _INSTALLED = True
    import python_jsonschema_objects as pjs
    import python_jsonschema_objects.literals as lit
    import python_jsonschema_objects.pattern_properties as pp

    cache = {}
    LiteralValue = lit.LiteralValue

    def MakeLiteral(name, typ, value, **properties):
        # the class is a pure function of (name, typ, properties); pjo uses it only via
        # __propinfo__ and isinstance(.., LiteralValue)
        with notrace():
            try:
                key = (str(name), repr(typ), repr(sorted(properties.items())))
            except Exception:
                key = None
            klass = cache.get(key) if key is not None else None
            if klass is None:
                props = dict(properties)
                props.update({'type': typ})
                klass = type(str(name), (LiteralValue,), {
                    '__propinfo__': {'__literal__': props, '__default__': props.get('default')}})
                if key is not None:
                    cache[key] = klass
        return klass(value)

    lit.MakeLiteral = MakeLiteral
    pp.MakeLiteral = MakeLiteral

    orig_build = pjs.ObjectBuilder.build_classes

    def build_classes(self, *a, **k):
        with notrace():
            return orig_build(self, *a, **k)

    pjs.ObjectBuilder.build_classes = build_classes


def install_pjo_range_message_stub():
    """pjo's minimum/maximum validators format the offending value into the error text, which realises a
    symbolic value (one path per concrete value, never exhausted). The comparisons are kept verbatim; only the
    message no longer contains the value ("formatting gets an empty body")."""
    import python_jsonschema_objects.validators as V
    if getattr(V, '_verif_stubbed', False):
        return
    V._verif_stubbed = True
    ValidationError = V.ValidationError

    def minimum(param, value, type_data):
        exclusive = type_data.get("exclusiveMinimum")
        if exclusive:
            if value <= param:
                raise ValidationError("value is less than or equal to {0}".format(param))
        elif value < param:
            raise ValidationError("value is less than {0}".format(param))

    def maximum(param, value, type_data):
        exclusive = type_data.get("exclusiveMaximum")
        if exclusive:
            if value >= param:
                raise ValidationError("value is greater than or equal to {0}".format(param))
        elif value > param:
            raise ValidationError("value is greater than {0}".format(param))

    V.registry.registry['minimum'] = minimum
    V.registry.registry['maximum'] = maximum
