"""Stubs installed from outside (no /repo hook needed). Each is part of the claim (DESIGN 2.3)."""
from __future__ import annotations

from xh.rt import notrace

_INSTALLED = False


def install():
    """Idempotent. Memoise pjo's per-assignment literal class creation; build pjo classes untraced."""
    global _INSTALLED
    if _INSTALLED:
        return
    _INSTALLED = True
    import python_jsonschema_objects as pjs
    import python_jsonschema_objects.literals as lit
    import python_jsonschema_objects.pattern_properties as pp

    cache = {}
    LiteralValue = lit.LiteralValue

    def MakeLiteral(name, typ, value, **properties):
        # the class is a pure function of (name, typ, properties); pjo uses it only via
        # __propinfo__ and isinstance(.., LiteralValue)
        with notrace():
            try:
                key = (str(name), repr(typ), repr(sorted(properties.items())))
            except Exception:
                key = None
            klass = cache.get(key) if key is not None else None
            if klass is None:
                props = dict(properties)
                props.update({'type': typ})
                klass = type(str(name), (LiteralValue,), {
                    '__propinfo__': {'__literal__': props, '__default__': props.get('default')}})
                if key is not None:
                    cache[key] = klass
        return klass(value)

    lit.MakeLiteral = MakeLiteral
    pp.MakeLiteral = MakeLiteral

    orig_build = pjs.ObjectBuilder.build_classes

    def build_classes(self, *a, **k):
        with notrace():
            return orig_build(self, *a, **k)

    pjs.ObjectBuilder.build_classes = build_classes
