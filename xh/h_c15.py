"""C15 - the language graph mirrors the language and over-approximates every attack graph."""
from __future__ import annotations

import copy

from xh.spec import Query, B, I, getter
from xh.g import idx, has_identity
from xh.rt import notrace, pick, reclimit
from xh import langs, mb

PROP = 'C15'


def sup_chain(spec, t):
    by = {a['name']: a for a in spec['assets']}
    out = []
    while t is not None:
        out.append(t)
        t = by[t]['superAsset']
    return out


def check_lang_graph(lg, spec):
    by = {a['name']: a for a in spec['assets']}
    names = [a['name'] for a in spec['assets']]
    if sorted(a.name for a in lg.assets) != sorted(names):
        return 'language graph assets %s, language declares %s' % (sorted(a.name for a in lg.assets), sorted(names))
    for t in names:
        a = lg.get_asset_by_name(t)
        if a is None:
            return 'get_asset_by_name(%s) is None' % t
        want_sup = [by[t]['superAsset']] if by[t]['superAsset'] else []
        if [x.name for x in a.super_assets] != want_sup:
            return '%s.super_assets = %s, language says %s' % (t, [x.name for x in a.super_assets], want_sup)
        want_sub = sorted(n for n in names if by[n]['superAsset'] == t)
        if sorted(x.name for x in a.sub_assets) != want_sub:
            return '%s.sub_assets = %s, language says %s' % (t, sorted(x.name for x in a.sub_assets), want_sub)
        if bool(a.is_abstract) != bool(by[t]['isAbstract']):
            return '%s.is_abstract wrong' % t
        for u in names:
            b = lg.get_asset_by_name(u)
            want = u in sup_chain(spec, t)
            if bool(a.is_subasset_of(b)) != want:
                return 'is_subasset_of(%s, %s) = %s, reflexive-transitive closure of extends says %s' % (t, u, a.is_subasset_of(b), want)
        if sorted(set(x.name for x in a.get_all_superassets())) != sorted(sup_chain(spec, t)):
            return 'get_all_superassets(%s) = %s' % (t, sorted(x.name for x in a.get_all_superassets()))
        if sorted(set(x.name for x in a.get_all_subassets())) != sorted(n for n in names if t in sup_chain(spec, n)):
            return 'get_all_subassets(%s) = %s' % (t, sorted(x.name for x in a.get_all_subassets()))
        chain = sup_chain(spec, t)
        want_assocs = sorted(set((x['name'], x['leftField'], x['rightField']) for x in spec['associations']
                                 if x['leftAsset'] in chain or x['rightAsset'] in chain))
        got_assocs = sorted((x.name, x.left_field.fieldname, x.right_field.fieldname) for x in a.associations)
        if got_assocs != want_assocs:
            return 'asset %s lists associations %s, it or an ancestor takes part in %s' % (t, got_assocs, want_assocs)
        want_steps = sorted(langs.ref_fold(spec, t))
        if sorted(s.name for s in a.attack_steps) != want_steps:
            return 'asset %s has steps %s, fold gives %s' % (t, sorted(s.name for s in a.attack_steps), want_steps)
    if sorted((x.name, x.left_field.asset.name, x.left_field.fieldname, x.left_field.minimum, x.left_field.maximum,
               x.right_field.asset.name, x.right_field.fieldname, x.right_field.minimum, x.right_field.maximum) for x in lg.associations) != \
            sorted((x['name'], x['leftAsset'], x['leftField'], x['leftMultiplicity']['min'], x['leftMultiplicity']['max'],
                    x['rightAsset'], x['rightField'], x['rightMultiplicity']['min'], x['rightMultiplicity']['max']) for x in spec['associations']):
        return 'language graph associations differ from the declared ones'
    # lookup by fields and asset types, both orientations, for every pair of concrete subtypes
    for x in spec['associations']:
        ls = [n for n in names if x['leftAsset'] in sup_chain(spec, n)]
        rs = [n for n in names if x['rightAsset'] in sup_chain(spec, n)]
        for l in ls:
            for r in rs:
                for (f1, f2, a1, a2) in ((x['leftField'], x['rightField'], l, r), (x['rightField'], x['leftField'], r, l)):
                    got = lg.get_association_by_fields_and_assets(f1, f2, a1, a2)
                    if got is None or got.name != x['name'] or got.left_field.fieldname != x['leftField']:
                        return 'get_association_by_fields_and_assets(%s, %s, %s, %s) = %s, expected %s' % (f1, f2, a1, a2, got and got.name, x['name'])
        other = [n for n in names if n not in ls and n not in rs]
        for o in other:
            if lg.get_association_by_fields_and_assets(x['leftField'], x['rightField'], o, rs[0]) is not None:
                return 'get_association_by_fields_and_assets matches %s for unrelated asset %s' % (x['name'], o)
        if lg.get_association_by_fields_and_assets(x['leftField'], 'nosuchfield', ls[0], rs[0]) is not None:
            return 'get_association_by_fields_and_assets matches a wrong field name'
    # step-to-step links are mirrored
    if len(lg.attack_steps) != sum(len(a.attack_steps) for a in lg.assets):
        return 'attack_steps list inconsistent with per-asset lists'
    for s in lg.attack_steps:
        for cname, lst in s.children.items():
            for (tgt, _chain) in lst:
                if tgt.name != cname:
                    return 'child entry %s of %s points to step %s' % (cname, s.qualified_name, tgt.name)
                if not has_identity(lg.attack_steps, tgt):
                    return 'child %s of %s is not a step of the graph' % (tgt.qualified_name, s.qualified_name)
                back = tgt.parents.get(s.name, [])
                if not any(p is s for (p, _c) in back):
                    return 'link %s -> %s is missing from the target\'s parents' % (s.qualified_name, tgt.qualified_name)
        for pname, lst in s.parents.items():
            for (src, _chain) in lst:
                fwd = src.children.get(s.name, [])
                if not any(c is s for (c, _c) in fwd):
                    return 'link %s -> %s is missing from the source\'s children' % (src.qualified_name, s.qualified_name)
        # every reaches expression produced exactly one link
        exprs = s.attributes['reaches']['stepExpressions'] if s.attributes['reaches'] else []
        if sum(len(v) for v in s.children.values()) != len(exprs):
            return 'step %s has %d child links for %d reaches expressions' % (s.qualified_name, sum(len(v) for v in s.children.values()), len(exprs))
    return ''


def check_prediction(lg, g, spec):
    """Every attack-graph edge X:s -> Y:t is predicted by a language-graph link (type(X), s) -> step t owned by type(Y) or an ancestor."""
    for n in g.nodes:
        xt = str(n.asset.type)
        la = lg.get_asset_by_name(xt)
        ls = next((s for s in la.attack_steps if s.name == n.name), None)
        if ls is None:
            return 'language graph has no step %s:%s' % (xt, n.name)
        for c in n.children:
            yt = str(c.asset.type)
            owners = [tgt.asset.name for (tgt, _c) in ls.children.get(c.name, [])]
            if not any(o in sup_chain(spec, yt) for o in owners):
                return 'attack-graph edge %s -> %s (types %s -> %s) is not predicted: language-graph step %s:%s links to step %s owned by %s' % (
                    n.full_name, c.full_name, xt, yt, xt, n.name, c.name, owners)
    return ''


def body_mirror(cube, **kw):
    from maltoolbox.language import LanguageGraph
    which = idx(kw['lang'], 5)
    cs = (idx(kw['c0'], 3), idx(kw['c1'], 4), idx(kw['c2'], 4), 0)
    with notrace(), reclimit():
        if which == 0:
            from xh.h_c03 import wellformed_cs
            if not wellformed_cs(cs):
                return ''
            spec = langs.L_INH(cs)
        elif which == 1:
            spec = langs.L_UNI()
        elif which == 2:
            spec = langs.L_SET()
        elif which == 3:
            spec = langs.L_SYM()
        else:
            spec = langs.L_ROLE()
        lg = LanguageGraph(copy.deepcopy(spec))
        before = lg._to_dict()
        r = check_lang_graph(lg, spec)
        if r:
            return r
        if lg._to_dict() != before:
            return 'the subtype / association queries changed the language graph'
        r = check_lang_graph(lg, spec)
        if r:
            return 'second round of queries: ' + r
        lg.regenerate_graph()
        return check_lang_graph(lg, spec)


def body_ill(cube, **kw):
    from maltoolbox.language import LanguageGraph
    from maltoolbox.exceptions import LanguageGraphException
    k = idx(kw['k'], len(langs.ILL))
    with notrace(), reclimit():
        spec = langs.F_ILL(k)
        try:
            LanguageGraph(copy.deepcopy(spec))
        except LanguageGraphException:
            return ''
        except Exception as e:
            return 'ill-formed language (%s) raised %s instead of a language-graph error' % (langs.ILL[k], type(e).__name__)
        return 'ill-formed language (%s) was accepted without an error' % langs.ILL[k]


def body_predict(cube, **kw):
    from maltoolbox.attackgraph import AttackGraph
    which = idx(kw['lang'], 3)
    bits = [bool(kw['b%d' % i]) for i in range(5)]
    t0 = idx(kw['t0'], 3)
    with notrace(), reclimit():
        if which == 0:
            spec = langs.L_UNI()
            lg, lcf = langs.build_lang(spec)
            types = ['S', 'B1', 'B2', ['B', 'B1', 'B2'][t0]]
            m, a = mb.build_model(lcf, types)
            if bits[0]:
                mb.add_link(m, lcf, 'A1', 's1', [a[0]], 'x1', [a[1]])
            if bits[1]:
                mb.add_link(m, lcf, 'A2', 's2', [a[0]], 'x2', [a[2]])
            if bits[2]:
                mb.add_link(m, lcf, 'AB', 'sb', [a[0]], 'xb', [a[3]])
            if bits[3]:
                mb.add_link(m, lcf, 'AB', 'sb', [a[0]], 'xb', [a[1]])
            if bits[4]:
                mb.add_link(m, lcf, 'AB', 'sb', [a[0]], 'xb', [a[2]])
        elif which == 2:
            spec = langs.L_ROLE()
            lg, lcf = langs.build_lang(spec)
            types = ['Host', 'VM', 'User', ['Host', 'VM', 'User'][t0]]
            m, a = mb.build_model(lcf, types)
            if bits[0]:
                mb.add_link(m, lcf, 'Hosting', 'owner', [a[0]], 'vms', [a[1]])
            if bits[1]:
                mb.add_link(m, lcf, 'Owns', 'owner', [a[2]], 'hosts', [a[0]])
            if bits[2] and t0 == 0:
                mb.add_link(m, lcf, 'Owns', 'owner', [a[2]], 'hosts', [a[3]])
            if bits[3] and t0 == 1:
                mb.add_link(m, lcf, 'Hosting', 'owner', [a[0]], 'vms', [a[3]])
            if bits[4] and t0 == 2:
                mb.add_link(m, lcf, 'Owns', 'owner', [a[3]], 'hosts', [a[0]])
        else:
            spec = langs.L_INH()
            lg, lcf = langs.build_lang(spec)
            types = [['Am', 'G1', 'G2'][t0], 'G1', 'O', 'O']
            m, a = mb.build_model(lcf, types)
            if bits[0]:
                mb.add_link(m, lcf, 'L', 'ps', [a[0]], 'os', [a[2]])
            if bits[1]:
                mb.add_link(m, lcf, 'L', 'ps', [a[1]], 'os', [a[2], a[3]])
            if bits[2]:
                mb.add_link(m, lcf, 'L1', 'ps1', [a[1]], 'os1', [a[3]])
            if bits[3]:
                mb.add_link(m, lcf, 'L', 'ps', [a[0]], 'os', [a[3]])
            if bits[4]:
                mb.add_link(m, lcf, 'L2', 'as2', [a[0]], 'os2', [a[2]])
            if bits[0] or bits[3]:
                mb.add_link(m, lcf, 'Tree', 'up', [a[1]], 'down', [a[0]])       # G1 above a0; spread -> down*.tP
            if bits[1] and bits[2]:
                mb.add_link(m, lcf, 'Tree', 'up', [a[0]], 'down', [a[1]])       # and a cycle
        g = AttackGraph(lg, m)
        return check_prediction(lg, g, spec)


def queries(tier):
    qs = []
    ps = [I('lang', 0, 4), I('c0', 0, 2), I('c1', 0, 3), I('c2', 0, 3)]
    qs.append(Query(name='mirror', body=body_mirror, params=ps, pre=['lang == 0 or (c0 == 0 and c1 == 0 and c2 == 0)'], split=['c0'], timeout=500,
                    witnesses=[({}, {'lang': 0, 'c0': 2, 'c1': 3, 'c2': 0}), ({}, {'lang': 1, 'c0': 0, 'c1': 0, 'c2': 0}), ({}, {'lang': 2, 'c0': 0, 'c1': 0, 'c2': 0}), ({}, {'lang': 3, 'c0': 0, 'c1': 0, 'c2': 0}), ({}, {'lang': 4, 'c0': 0, 'c1': 0, 'c2': 0})],
                    bound='languages: L_INH family (step s declared in 3 x 4 x 4 ways over P/A/G1), L_UNI (set operators over sibling types), L_SET, L_SYM (same field name on both ends of an association), L_ROLE (a field name that is also the role name of the asset in another association); '
                          'assets, super/sub links, subtype closure, per-asset associations, association lookup in both orientations for every pair of subtypes, '
                          'mirrored step links; checked again after regenerate_graph()'))
    qs.append(Query(name='ill', body=body_ill, params=[I('k', 0, len(langs.ILL) - 1)], timeout=300,
                    witnesses=[({}, {'k': 0}), ({}, {'k': 3})],
                    bound='ill-formed variants of L_INH: %s' % langs.ILL))
    ps = [I('lang', 0, 2), I('t0', 0, 2)] + [B('b%d' % i) for i in range(5)]
    qs.append(Query(name='predict', body=body_predict, params=ps, split=['lang', 't0'], timeout=500,
                    witnesses=[({}, {'lang': 0, 't0': 0, 'b0': True, 'b1': True, 'b2': True, 'b3': True, 'b4': False}),
                               ({}, {'lang': 1, 't0': 1, 'b0': True, 'b1': True, 'b2': True, 'b3': False, 'b4': True})],
                    bound='4-asset models of L_UNI, L_INH and L_ROLE (type pick for one asset, every subset of 5 links): each attack-graph edge must be predicted by a '
                          'language-graph link to a step owned by the target\'s type or an ancestor'))
    return qs


META = {
    'bounds': 'three language families, five ill-formed variants, 4-asset models with 32 link subsets',
    'outside': ['languages outside the families', 'the dependency chains attached to the links (only existence and ownership of the link are observed)'],
    'stubs': ['pjo MakeLiteral memoised; pjo class building untraced'],
    'assumptions': ['"reported as errors" = a LanguageGraphException (or subclass) is raised by the constructor'],
    'requires': ['LanguageGraph._generate_graph', 'LanguageGraph.process_step_expression', 'LanguageGraph.reverse_dep_chain',
                 'LanguageGraphAsset.is_subasset_of', 'LanguageGraphAsset.get_all_subassets', 'LanguageGraphAsset.get_all_superassets',
                 'LanguageGraph.get_association_by_fields_and_assets'],
}
get_query = getter(queries)
