"""C01 - attack-graph edges are exactly the MAL meaning of the step expressions."""
from __future__ import annotations

from xh.spec import Query, B, I, getter
from xh.rt import notrace, reclimit
from xh import langs, mb

PROP = 'C01'
_SPEC = {}


def lset():
    if 'lset' not in _SPEC:
        _SPEC['lset'] = langs.L_SET()
    return _SPEC['lset']


def lset_steps(_t):
    if 'lset_steps' not in _SPEC:
        a = lset()['assets'][0]
        _SPEC['lset_steps'] = {s['name']: (s['reaches']['stepExpressions'] if s['reaches'] else []) for s in a['attackSteps']}
    return _SPEC['lset_steps']


def _run_lset(n, pq, rs, packed=False):
    """All inputs concrete: build the real model, generate the real graph, compare with the reference."""
    from maltoolbox.attackgraph import AttackGraph
    sp = lset()
    lg, lcf = langs.build_lang(sp)
    m, assets = mb.build_model(lcf, ['N'] * n)
    rel = langs.Rel(n, ['N'] * n, {'N': None}, {'N': {'v': sp['assets'][0]['variables'][0]['stepExpression']}})
    if not packed:
        for (i, j) in pq:
            mb.add_link(m, lcf, 'PQ', 'p', [assets[i]], 'q', [assets[j]])
            rel.add_link('p', i, 'q', j)
        for (i, j) in rs:
            mb.add_link(m, lcf, 'RS', 'r', [assets[i]], 's', [assets[j]])
            rel.add_link('r', i, 's', j)
    else:
        # one association object per source asset, holding all its targets in one field (shared members)
        for i in range(n):
            tg = [j for (a, j) in pq if a == i]
            if tg:
                mb.add_link(m, lcf, 'PQ', 'p', [assets[i]], 'q', [assets[j] for j in tg])
                for j in tg:
                    rel.add_link('p', i, 'q', j)
        for j in range(n):
            src = [i for (i, b) in rs if b == j]
            if src:
                mb.add_link(m, lcf, 'RS', 'r', [assets[i] for i in src], 's', [assets[j]])
                for i in src:
                    rel.add_link('r', i, 's', j)
    g = AttackGraph(lg, m)
    return mb.check_edges(g, assets, rel, lset_steps)


def body_lset(cube, **kw):
    n = cube['n']
    pq, rs = [], []
    for i in range(n):
        for j in range(n):
            if kw['pq%d%d' % (i, j)]:
                pq.append((i, j))
            if kw['rs%d%d' % (i, j)]:
                rs.append((i, j))
    with notrace(), reclimit():
        return _run_lset(n, pq, rs, packed=cube.get('packed', False))


def _lset_variant():
    """Same type, field, step and variable names as L_SET, different bodies."""
    import copy
    sp = copy.deepcopy(lset())
    a = sp['assets'][0]
    a['variables'][0]['stepExpression'] = langs.inter(langs.fld('q'), langs.fld('s'))
    for s in a['attackSteps']:
        if s['name'] == 'e_f_q':
            s['reaches']['stepExpressions'] = [langs.to(langs.fld('s'), 't')]
        if s['name'] == 'e_c_qs':
            s['reaches']['stepExpressions'] = [langs.to(langs.collect(langs.fld('s'), langs.fld('q')), 't')]
    return sp


def body_twolang(cube, **kw):
    """A second language with the same names but other definitions, processed in the same interpreter:
    nothing resolved for the first language may leak into the second (and back)."""
    from maltoolbox.attackgraph import AttackGraph
    n = 2
    pq, rs = [], []
    for i in range(n):
        for j in range(n):
            if kw['pq%d%d' % (i, j)]:
                pq.append((i, j))
            if kw['rs%d%d' % (i, j)]:
                rs.append((i, j))
    order = [0, 1, 0] if not kw['swap'] else [1, 0, 1]
    with notrace(), reclimit():
        specs = [lset(), _lset_variant()]
        for which in order:
            sp = specs[which]
            lg, lcf = langs.build_lang(sp)
            m, assets = mb.build_model(lcf, ['N'] * n)
            rel = langs.Rel(n, ['N'] * n, {'N': None}, {'N': {'v': sp['assets'][0]['variables'][0]['stepExpression']}})
            for (i, j) in pq:
                mb.add_link(m, lcf, 'PQ', 'p', [assets[i]], 'q', [assets[j]]); rel.add_link('p', i, 'q', j)
            for (i, j) in rs:
                mb.add_link(m, lcf, 'RS', 'r', [assets[i]], 's', [assets[j]]); rel.add_link('r', i, 's', j)
            g = AttackGraph(lg, m)
            steps = {s['name']: (s['reaches']['stepExpressions'] if s['reaches'] else []) for s in sp['assets'][0]['attackSteps']}
            r = mb.check_edges(g, assets, rel, lambda _t: steps)
            if r:
                return 'language %s (processed in the order %s): %s' % ('L_SET' if which == 0 else 'variant of L_SET with the same names', order, r)
    return ''


def body_linh(cube, **kw):
    """Edges on the inheritance language: step s redefined (absent / no reaches / -> / +>) at each level."""
    from maltoolbox.attackgraph import AttackGraph
    from xh.g import idx
    from xh.h_c03 import wellformed_cs
    cs = (idx(kw['c0'], 3), idx(kw['c1'], 4), idx(kw['c2'], 4), idx(kw['c3'], 4))
    l0, l1, l2 = bool(kw['l0']), bool(kw['l1']), bool(kw['l2'])
    if not wellformed_cs(cs):
        return ''
    with notrace(), reclimit():
        spec = langs.L_INH(cs)
        lg, lcf = langs.build_lang(spec)
        types = ['Am', 'G1', 'G2', 'O', 'G3']
        m, assets = mb.build_model(lcf, types)
        rel = langs.rel_for(spec, types)
        if l0:
            mb.add_link(m, lcf, 'L', 'ps', [assets[0], assets[1]], 'os', [assets[3]])
            rel.add_link('ps', 0, 'os', 3); rel.add_link('ps', 1, 'os', 3)
        if l1:
            mb.add_link(m, lcf, 'L', 'ps', [assets[2], assets[4]], 'os', [assets[3]]); rel.add_link('ps', 2, 'os', 3); rel.add_link('ps', 4, 'os', 3)
        if l2:
            mb.add_link(m, lcf, 'L2', 'as2', [assets[2]], 'os2', [assets[3]]); rel.add_link('as2', 2, 'os2', 3)
        g = AttackGraph(lg, m)
        r = mb.check_edges(g, assets, rel, lambda t: {n: (d['reaches']['stepExpressions'] if d['reaches'] else [])
                                                      for n, d in langs.ref_fold(spec, t).items()})
        if r:
            return r
        g2 = AttackGraph(lg, m)      # a second generation from the same language graph must give the same edges
        return mb.check_edges(g2, assets, rel, lambda t: {n: (d['reaches']['stepExpressions'] if d['reaches'] else [])
                                                          for n, d in langs.ref_fold(spec, t).items()})


def queries(tier):
    qs = []

    def mk(name, n, maxl, packed, timeout, split=()):
        bits = ['pq%d%d' % (i, j) for i in range(n) for j in range(n)] + ['rs%d%d' % (i, j) for i in range(n) for j in range(n)]
        w = {b: False for b in bits}
        w.update({'pq01': True, 'rs01': True, 'pq10': True})
        return Query(name=name, body=body_lset, params=[B(b) for b in bits], cubes=[{'n': n, 'packed': packed}],
                     pre=(['%s <= %d' % (' + '.join(bits), maxl)] if maxl is not None else []), split=list(split),
                     timeout=timeout, witnesses=[({'n': n, 'packed': packed}, w)],
                     bound='language L_SET (1 type, associations PQ(p,q), RS(r,s), %d catalogued expressions: field, collect, union, '
                           'intersection, difference, transitive, variable, nested); %d assets; every link matrix over both relations%s '
                           '(incl. self-links and cycles); %s' % (
                               len(langs.lset_catalogue()), n, '' if maxl is None else ' with <= %d links' % maxl,
                               'one association object per source/target group (several members per field)' if packed
                               else 'one association object per link'))
    if tier == 'quick':
        qs.append(mk('lset2', 2, None, False, 300, split=['pq00', 'pq01']))
        qs.append(mk('lset3', 3, 2, False, 300, split=['pq00', 'rs12']))
        qs.append(mk('lset3p', 3, 3, True, 300, split=['pq01', 'pq02', 'rs01', 'rs10']))
    else:
        qs.append(mk('lset2', 2, None, False, 900, split=['pq00', 'pq01']))
        qs.append(mk('lset3', 3, 5, False, 1700, split=['pq00', 'pq01', 'pq02', 'pq10']))
        qs.append(mk('lset3p', 3, 5, True, 1700, split=['pq00', 'pq01', 'pq02', 'pq10']))
    bits2 = ['pq%d%d' % (i, j) for i in range(2) for j in range(2)] + ['rs%d%d' % (i, j) for i in range(2) for j in range(2)]
    qs.append(Query(name='twolang', body=body_twolang, params=[B(b) for b in bits2] + [B('swap')], split=['swap', 'pq01'],
                    pre=['%s <= %d' % (' + '.join(bits2), 3 if tier == 'quick' else 8)], timeout=600,
                    witnesses=[({}, dict({b: False for b in bits2}, pq01=True, rs01=True, swap=False))],
                    bound='two languages with identical type / field / step / variable names but different variable and step bodies, built and used '
                          'alternately in one interpreter (A, B, A and B, A, B) on 2 assets with every link matrix%s' % (' of <= 3 links' if tier == 'quick' else '')))
    ps = [I('c0', 0, 2), I('c1', 0, 3), I('c2', 0, 3), I('c3', 0, 3), B('l0'), B('l1'), B('l2')]
    qs.append(Query(name='linh', body=body_linh, params=ps, split=['c0', 'c1'], timeout=600,
                    witnesses=[({}, {'c0': 1, 'c1': 3, 'c2': 3, 'c3': 3, 'l0': True, 'l1': True, 'l2': True})],
                    bound='language family F_INH (P <- Am <- {G1,G2}, O; step s absent / without reaches / -> / +> at each of the 4 levels; variable, subType, '
                          'extended and overridden steps); one asset of each concrete type, every subset of 3 links (one with two members in a field); generated twice'))
    return qs


META = {
    'bounds': 'L_SET with 2 assets (all 256 link matrices) and 3 assets (bounded number of links); link bits are symbolic, '
              'the model they induce is built through the real Model API and the real generator runs on it',
    'outside': ['more than 3 assets', 'more links than the cap', 'expressions outside the catalogue',
                'duplicate entries in children/parents (sets are compared)'],
    'stubs': ['pjo MakeLiteral memoised; pjo class building untraced (DESIGN 2.3)'],
    'assumptions': ['after the link bits are decided every value is concrete, so the real generator is executed untraced on that path '
                    '(identical semantics; tracing only matters for symbolic values)',
                    'transitive: closure+ <= result <= closure*'],
    'requires': ['_process_step_expression', 'AttackGraph._generate_graph', 'Model.get_associated_assets_by_field_name',
                 'LanguageGraph._get_variable_for_asset_type_by_name'],
}
get_query = getter(queries)
