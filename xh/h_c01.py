"""C01 - attack-graph edges are exactly the MAL meaning of the step expressions."""
from __future__ import annotations

from xh.spec import Query, B, I, getter
from xh.rt import notrace, reclimit
from xh import langs, mb

PROP = 'C01'
_SPEC = {}


def lset():
    if 'lset' not in _SPEC:
        _SPEC['lset'] = langs.L_SET()
    return _SPEC['lset']


def lset_steps(_t):
    if 'lset_steps' not in _SPEC:
        a = lset()['assets'][0]
        _SPEC['lset_steps'] = {s['name']: (s['reaches']['stepExpressions'] if s['reaches'] else []) for s in a['attackSteps']}
    return _SPEC['lset_steps']


def _run_lset(n, pq, rs, packed=False):
    """All inputs concrete: build the real model, generate the real graph, compare with the reference."""
    from maltoolbox.attackgraph import AttackGraph
    sp = lset()
    lg, lcf = langs.build_lang(sp)
    m, assets = mb.build_model(lcf, ['N'] * n)
    rel = langs.Rel(n, ['N'] * n, {'N': None}, {'N': {'v': sp['assets'][0]['variables'][0]['stepExpression']}})
    if not packed:
        for (i, j) in pq:
            mb.add_link(m, lcf, 'PQ', 'p', [assets[i]], 'q', [assets[j]])
            rel.add_link('p', i, 'q', j)
        for (i, j) in rs:
            mb.add_link(m, lcf, 'RS', 'r', [assets[i]], 's', [assets[j]])
            rel.add_link('r', i, 's', j)
    else:
        # one association object per source asset, holding all its targets in one field (shared members)
        for i in range(n):
            tg = [j for (a, j) in pq if a == i]
            if tg:
                mb.add_link(m, lcf, 'PQ', 'p', [assets[i]], 'q', [assets[j] for j in tg])
                for j in tg:
                    rel.add_link('p', i, 'q', j)
        for j in range(n):
            src = [i for (i, b) in rs if b == j]
            if src:
                mb.add_link(m, lcf, 'RS', 'r', [assets[i] for i in src], 's', [assets[j]])
                for i in src:
                    rel.add_link('r', i, 's', j)
    g = AttackGraph(lg, m)
    return mb.check_edges(g, assets, rel, lset_steps)


def body_lset(cube, **kw):
    n = cube['n']
    pq, rs = [], []
    for i in range(n):
        for j in range(n):
            if kw['pq%d%d' % (i, j)]:
                pq.append((i, j))
            if kw['rs%d%d' % (i, j)]:
                rs.append((i, j))
    with notrace(), reclimit():
        return _run_lset(n, pq, rs, packed=cube.get('packed', False))


def queries(tier):
    qs = []

    def mk(name, n, maxl, packed, timeout, split=()):
        bits = ['pq%d%d' % (i, j) for i in range(n) for j in range(n)] + ['rs%d%d' % (i, j) for i in range(n) for j in range(n)]
        w = {b: False for b in bits}
        w.update({'pq01': True, 'rs01': True, 'pq10': True})
        return Query(name=name, body=body_lset, params=[B(b) for b in bits], cubes=[{'n': n, 'packed': packed}],
                     pre=(['%s <= %d' % (' + '.join(bits), maxl)] if maxl is not None else []), split=list(split),
                     timeout=timeout, witnesses=[({'n': n, 'packed': packed}, w)],
                     bound='language L_SET (1 type, associations PQ(p,q), RS(r,s), %d catalogued expressions: field, collect, union, '
                           'intersection, difference, transitive, variable, nested); %d assets; every link matrix over both relations%s '
                           '(incl. self-links and cycles); %s' % (
                               len(langs.lset_catalogue()), n, '' if maxl is None else ' with <= %d links' % maxl,
                               'one association object per source/target group (several members per field)' if packed
                               else 'one association object per link'))
    if tier == 'quick':
        qs.append(mk('lset2', 2, None, False, 300, split=['pq00', 'pq01']))
        qs.append(mk('lset3', 3, 2, False, 300, split=['pq00', 'rs12']))
        qs.append(mk('lset3p', 3, 3, True, 300, split=['pq01', 'pq02', 'rs01', 'rs10']))
    else:
        qs.append(mk('lset2', 2, None, False, 900, split=['pq00', 'pq01']))
        qs.append(mk('lset3', 3, 5, False, 1700, split=['pq00', 'pq01', 'pq02', 'pq10']))
        qs.append(mk('lset3p', 3, 5, True, 1700, split=['pq00', 'pq01', 'pq02', 'pq10']))
    return qs


META = {
    'bounds': 'L_SET with 2 assets (all 256 link matrices) and 3 assets (bounded number of links); link bits are symbolic, '
              'the model they induce is built through the real Model API and the real generator runs on it',
    'outside': ['more than 3 assets', 'more links than the cap', 'expressions outside the catalogue',
                'duplicate entries in children/parents (sets are compared)'],
    'stubs': ['pjo MakeLiteral memoised; pjo class building untraced (DESIGN 2.3)'],
    'assumptions': ['after the link bits are decided every value is concrete, so the real generator is executed untraced on that path '
                    '(identical semantics; tracing only matters for symbolic values)',
                    'transitive: closure+ <= result <= closure*'],
    'requires': ['_process_step_expression', 'AttackGraph._generate_graph', 'Model.get_associated_assets_by_field_name',
                 'LanguageGraph._get_variable_for_asset_type_by_name'],
}
get_query = getter(queries)
