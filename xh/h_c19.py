"""C19 - Neo4j export is isomorphic to what is exported, and import inverts it."""
from __future__ import annotations

import itertools

from xh.spec import Query, B, I, getter
from xh.g import idx
from xh.rt import notrace, pick, reclimit
from xh import langs, mb
from xh.h_c09 import L_MINI

PROP = 'C19'
DB = {}
ORDER = {'assets': 0, 'rows': 0}


class _Result:
    def __init__(self, rows):
        self.rows = rows

    def data(self):
        return list(self.rows)


class _Tx:
    def __init__(self, g):
        self.g = g

    def create(self, subgraph):
        self.g.db['nodes'] += list(subgraph.nodes)
        self.g.db['rels'] += list(subgraph.relationships)
        self.g.db['creates'] += 1


class FakeGraph:
    """Recording stand-in for py2neo.Graph: create() records the Subgraph; run() answers exactly the two fixed Cypher
    queries of get_model over what was recorded, returning rows in an order chosen by the harness (a database promises none)."""

    def __init__(self, uri=None, user=None, password=None, name=None, **kw):
        self.db = DB.setdefault(name, {'nodes': [], 'rels': [], 'creates': 0, 'commits': 0})

    def delete_all(self):
        self.db['nodes'] = []
        self.db['rels'] = []

    def begin(self):
        return _Tx(self)

    def commit(self, tx):
        self.db['commits'] += 1

    def run(self, q):
        q = ' '.join(q.split())
        if q == 'MATCH (a) WHERE a.type IS NOT NULL RETURN DISTINCT a':
            rows = [{'a': n} for n in self.db['nodes'] if n.get('type') is not None]
            perms = list(itertools.permutations(range(len(rows))))
            p = perms[ORDER['assets'] % len(perms)] if rows else ()
            return _Result([rows[i] for i in p])
        if q == 'MATCH (a)-[r1]->(b),(a)<-[r2]-(b) WHERE a.type IS NOT NULL RETURN DISTINCT a, r1, r2, b':
            rows = []
            rels = self.db['rels']
            for r1 in rels:
                a, b = r1.start_node, r1.end_node
                if a.get('type') is None:
                    continue
                for r2 in rels:
                    if r2 is r1:
                        continue
                    if r2.start_node is b and r2.end_node is a:
                        rows.append({'a': a, 'r1': r1, 'r2': r2, 'b': b})
            k = ORDER['rows']
            if k & 1:
                rows.reverse()
            if rows:
                sh = (k >> 1) % len(rows)
                rows = rows[sh:] + rows[:sh]
            return _Result(rows)
        raise AssertionError('stub database received an unexpected query: %r' % q)


def install():
    import maltoolbox.ingestors.neo4j as ing
    ing.Graph = FakeGraph
    return ing


def model_from(lcf, c):
    spec_types = c['types']
    m, A = mb.build_model(lcf, spec_types, names=['n zero', 'n1', 'n2', 'n3', 'n4', 'n5'][:len(spec_types)], ids=c['ids'])
    for (cls, f1, i, f2, j) in c['links']:
        mb.add_link(m, lcf, cls, f1, [A[x] for x in i], f2, [A[x] for x in j])
    return m, A


def expected_pairs(m):
    out = set()
    for x in m.associations:
        f1, f2 = m.get_association_field_names(x)
        for a in getattr(x, f1):
            for b in getattr(x, f2):
                out.add((int(a.id), str(f1), int(b.id)))
                out.add((int(b.id), str(f2), int(a.id)))
    return out


def body_model(cube, **kw):
    from maltoolbox.model import Model
    t0 = idx(kw['t0'], 3)
    bits = [bool(kw['b%d' % i]) for i in range(5)]
    ORDER_assets = idx(kw['pa'], 6)
    ORDER_rows = idx(kw['pr'], 6)
    delete = bool(kw['del'])
    ch = idx(kw['ch'], 4) if 'ch' in kw else 0
    with notrace(), reclimit():
        ing = install()
        DB.clear()
        ORDER['assets'], ORDER['rows'] = ORDER_assets, ORDER_rows
        spec = langs.L_INH()
        lg, lcf = langs.build_lang(spec)
        links = []
        T = ['G1', 'G2', 'Am'][t0]
        if bits[0]:
            links.append(('L', 'ps', [0], 'os', [1]))
        if bits[1]:
            links.append(('L1', 'ps1', [0], 'os1', [1]))
        if bits[2]:
            links.append(('L', 'ps', [0], 'os', [2]) if not bits[0] else ('L2', 'as2', [0], 'os2', [2]))
        if bits[3] and T in ('G1', 'G2'):
            links.append(('Dup_%s_O' % T, 'dg1' if T == 'G1' else 'dg2', [0], 'do1' if T == 'G1' else 'do2', [2]))
        if bits[4]:
            links.append(('L2', 'as2', [0], 'os2', [1]))
        if ch == 1:
            links.append(('Chain', 'prv', [1], 'nxt', [1]))          # an asset linked to itself
        elif ch == 2:
            links.append(('Chain', 'prv', [1], 'nxt', [2]))
            links.append(('Chain', 'prv', [2], 'nxt', [2]))
        elif ch == 3:
            links.append(('Chain', 'prv', [1, 2], 'nxt', [2, 1]))       # several members in the left field
        m, A = model_from(lcf, {'types': [T, 'O', 'O'], 'ids': [7, 0, -3], 'links': links})
        if delete:
            DB['db'] = {'nodes': ['junk'], 'rels': ['junk'], 'creates': 0, 'commits': 0}
        ing.ingest_model(m, 'uri', 'user', 'pw', 'db', delete=delete)
        db = DB['db']
        if db['creates'] != 1 or db['commits'] != 1:
            return 'ingest_model used %d create() calls and %d commits, expected one transaction' % (db['creates'], db['commits'])
        nodes = db['nodes']
        if len(nodes) != len(m.assets):
            return 'ingest_model sent %d nodes for %d assets' % (len(nodes), len(m.assets))
        want_nodes = sorted((str(int(a.id)), str(a.name), str(a.type)) for a in m.assets)
        got_nodes = sorted((n.get('asset_id'), n.get('name'), n.get('type')) for n in nodes)
        if got_nodes != want_nodes:
            return 'ingested nodes %r, model assets %r' % (got_nodes, want_nodes)
        for n in nodes:
            if list(n.labels) != [n.get('type')]:
                return 'node label %r is not the asset type %r' % (list(n.labels), n.get('type'))
        got_rels = sorted((int(r.start_node.get('asset_id')), type(r).__name__, int(r.end_node.get('asset_id'))) for r in db['rels'])
        want_rels = sorted(expected_pairs(m))
        if got_rels != want_rels:
            return 'ingested relationships %r, linked pairs give %r' % (got_rels, want_rels)
        back = ing.get_model('uri', 'user', 'pw', 'db', lg, lcf)
        if back is None:
            return 'get_model returned None for an ingested model with links %s' % [l[0] for l in links]
        if sorted((int(a.id), str(a.name), str(a.type)) for a in back.assets) != sorted((int(a.id), str(a.name), str(a.type)) for a in m.assets):
            return 'get_model reconstructs assets %r' % sorted((int(a.id), str(a.name), str(a.type)) for a in back.assets)

        def linkset(mm):
            s = set()
            for x in mm.associations:
                f1, f2 = mm.get_association_field_names(x)
                for a in getattr(x, f1):
                    for b in getattr(x, f2):
                        s.add((type(x).__name__,) + tuple(sorted([(str(f1), int(a.id)), (str(f2), int(b.id))])))
            return s
        if linkset(back) != linkset(m):
            return 'get_model reconstructs links %r, ingested model had %r' % (sorted(linkset(back)), sorted(linkset(m)))
        if back.attackers:
            return 'get_model invented attackers'
    return ''


def body_twin(cube, **kw):
    """Language with two associations that share both field names between different type pairs."""
    b = [bool(kw['b%d' % i]) for i in range(4)]
    pa, pr = idx(kw['pa'], 6), idx(kw['pr'], 6)
    with notrace(), reclimit():
        ing = install()
        DB.clear()
        ORDER['assets'], ORDER['rows'] = pa, pr
        lg, lcf = langs.build_lang(langs.L_TWIN())
        links = []
        if b[0]:
            links.append(('Holds', 'owner', [0], 'items', [1]))
        if b[1]:
            links.append(('Carries', 'owner', [2], 'items', [3]))
        if b[2]:
            links.append(('Holds', 'owner', [0], 'items', [4]))
        if b[3]:
            links.append(('Carries', 'owner', [2], 'items', [3 if not b[1] else 5]))
        m, A = model_from(lcf, {'types': ['Host', 'Disk', 'Net', 'Packet', 'Disk', 'Packet'], 'ids': [4, 9, 0, 6, -2, 11], 'links': links})
        ing.ingest_model(m, 'uri', 'user', 'pw', 'db', delete=False)
        got_rels = sorted((int(r.start_node.get('asset_id')), type(r).__name__, int(r.end_node.get('asset_id'))) for r in DB['db']['rels'])
        if got_rels != sorted(expected_pairs(m)):
            return 'ingested relationships %r, linked pairs give %r' % (got_rels, sorted(expected_pairs(m)))
        try:
            back = ing.get_model('uri', 'user', 'pw', 'db', lg, lcf)
        except Exception as e:
            return 'get_model raised %s: %s' % (type(e).__name__, str(e)[:150])
        if back is None:
            return 'get_model returned None'

        def linkset(mm):
            s = set()
            for x in mm.associations:
                f1, f2 = mm.get_association_field_names(x)
                for a in getattr(x, f1):
                    for c in getattr(x, f2):
                        s.add((type(x).__name__,) + tuple(sorted([(str(f1), int(a.id)), (str(f2), int(c.id))])))
            return s
        if linkset(back) != linkset(m):
            return 'get_model reconstructs links %r, ingested model had %r' % (sorted(linkset(back)), sorted(linkset(m)))
        if sorted((int(a.id), str(a.type)) for a in back.assets) != sorted((int(a.id), str(a.type)) for a in m.assets):
            return 'get_model reconstructs different assets'
    return ''


def body_graph(cube, **kw):
    from maltoolbox.attackgraph import AttackGraph
    from maltoolbox.attackgraph.analyzers.apriori import calculate_viability_and_necessity
    link, dval, ana, att, noasset = bool(kw['l']), pick(kw['d'], [None, 1.0, 0.3]), bool(kw['an']), bool(kw['at']), bool(kw['na'])
    rmn = bool(kw['rmn']) if 'rmn' in kw else False
    twice = bool(kw['tw']) if 'tw' in kw else False
    cyc = bool(kw['cyc']) if 'cyc' in kw else False
    with notrace(), reclimit():
        ing = install()
        DB.clear()
        lg, lcf = langs.build_lang(L_MINI())
        m, A = mb.build_model(lcf, ['N', 'N'], names=['srv', 'db 1'])
        if link:
            mb.add_link(m, lcf, 'PQ', 'p', [A[0]], 'q', [A[1]])
        if dval is not None:
            A[1].d = dval
        g = AttackGraph(lg, m)
        if att:
            from maltoolbox.attackgraph import Attacker
            a = Attacker(name='att')
            g.add_attacker(a)
            a.compromise(g.nodes[0])
        if ana:
            calculate_viability_and_necessity(g)
        if noasset:
            from maltoolbox.attackgraph import AttackGraphNode
            x = AttackGraphNode(type='or', name='loose')
            g.add_node(x)
            g.nodes[0].children.append(x); x.parents.append(g.nodes[0])
        if cyc:
            # two attack steps that lead to each other (srv:a -> srv:c exists; add srv:c -> srv:a) and a self-loop
            na, nc = g.get_node_by_full_name('srv:a'), g.get_node_by_full_name('srv:c')
            nc.children.append(na); na.parents.append(nc)
            nc.children.append(nc); nc.parents.append(nc)
        if rmn:
            g.remove_node(g.nodes[1])        # node ids are no longer 0..n-1 in list order
        if twice:
            ing.ingest_attack_graph(g, 'uri', 'user', 'pw', 'first', delete=False)
            # state changes between the two exports
            from maltoolbox.attackgraph import Attacker
            b = Attacker(name='late')
            g.add_attacker(b)
            b.compromise(g.nodes[-1])
            g.nodes[0].is_necessary = not g.nodes[0].is_necessary
        ing.ingest_attack_graph(g, 'uri', 'user', 'pw', 'agdb', delete=False)
        db = DB['agdb']
        if db['creates'] != 1 or db['commits'] != 1:
            return 'ingest_attack_graph did not use exactly one transaction'
        if len(db['nodes']) != len(g.nodes):
            return 'ingest_attack_graph sent %d nodes for %d attack steps' % (len(db['nodes']), len(g.nodes))
        by_full = {n.get('full_name'): n for n in db['nodes']}
        if len(by_full) != len(g.nodes):
            return 'ingested attack-step nodes are not distinct by full name'
        for n in g.nodes:
            x = by_full.get(n.full_name)
            if x is None:
                return 'attack step %s missing from the ingested nodes' % n.full_name
            want = {'name': n.name, 'full_name': n.full_name, 'type': n.type, 'ttc': str(n.ttc), 'is_necessary': str(n.is_necessary),
                    'is_viable': str(n.is_viable), 'compromised_by': str([a.name for a in n.compromised_by]),
                    'defense_status': str(n.defense_status) if n.defense_status is not None else 'N/A'}
            got = dict(x)
            if got != want:
                return 'ingested node for %s has properties %r, expected %r' % (n.full_name, got, want)
            lab = str(n.asset.name) if n.asset is not None else n.id
            if [str(l) for l in x.labels] != [str(lab)]:
                return 'ingested node for %s has labels %r, expected %r' % (n.full_name, list(x.labels), [lab])
        want_edges = sorted((n.full_name, c.full_name) for n in g.nodes for c in n.children)
        got_edges = sorted((r.start_node.get('full_name'), r.end_node.get('full_name')) for r in db['rels'])
        if got_edges != sorted(set(want_edges)):
            return 'ingested relationships %r, attack-graph edges %r' % (got_edges[:6], want_edges[:6])
    return ''


def queries(tier):
    ps = [I('t0', 0, 2)] + [B('b%d' % i) for i in range(5)] + [I('ch', 0, 3), I('pa', 0, 5), I('pr', 0, 5), B('del')]
    pre = ['b0 + b1 + b2 + b3 + b4 <= 3', 'pa == pr', 'ch == 0 or b0 + b1 + b2 + b3 + b4 <= 1'] if tier == 'quick' else ['b0 + b1 + b2 + b3 + b4 <= 4']
    qs = [Query(name='model', body=body_model, params=ps, pre=pre, split=['t0', 'del'] if tier == 'quick' else ['t0', 'del', 'pa'],
                timeout=600 if tier == 'quick' else 1700,
                witnesses=[({}, {'t0': 0, 'b0': True, 'b1': False, 'b2': True, 'b3': True, 'b4': False, 'ch': 1, 'pa': 3, 'pr': 3, 'del': True}),
                           ({}, {'t0': 2, 'b0': True, 'b1': False, 'b2': False, 'b3': False, 'b4': False, 'ch': 2, 'pa': 0, 'pr': 0, 'del': False})],
                bound='3-asset L_INH models (ids 7, 0, -3; first asset G1/G2/Am; bounded subsets of 5 links incl. two associations between the same pair and '
                      'duplicate-named Dup classes, and a self-typed association Chain with an asset linked to itself) ingested into a recording database stub and read back with get_model; result rows returned in an order '
                      'chosen by symbolic picks (asset rows: all 6 permutations; relationship rows: reversal and rotation)'),
          Query(name='twin', body=body_twin, params=[B('b0'), B('b1'), B('b2'), B('b3'), I('pa', 0, 5), I('pr', 0, 5)], pre=['pa == pr'], timeout=400,
                witnesses=[({}, {'b0': True, 'b1': True, 'b2': True, 'b3': True, 'pa': 2, 'pr': 2})],
                bound='language L_TWIN (associations Holds and Carries share both field names): every subset of 4 links over 6 assets, exported and read back'),
          Query(name='graph', body=body_graph, params=[B('l'), I('d', 0, 2), B('an'), B('at'), B('na'), B('rmn'), B('tw'), B('cyc')], timeout=400,
                witnesses=[({}, {'l': True, 'd': 1, 'an': True, 'at': True, 'na': True, 'rmn': True, 'tw': True, 'cyc': True})],
                bound='attack graph of a 2-asset L_MINI model (link, defense value, analysis, attacker, an extra node without asset, a node removed so that ids are not dense; two steps leading to each other plus a self-loop; exported once, or twice with a state change in between): one database node per '
                      'attack step with its attributes, one relationship per edge')]
    return qs


META = {
    'bounds': '3-asset models / 2-asset attack graphs through a recording stand-in for py2neo.Graph',
    'outside': ['a real database (Cypher semantics are modelled for the two fixed queries only)', 'attackers in get_model (ingest_model does not export them)'],
    'stubs': ['maltoolbox.ingestors.neo4j.Graph -> FakeGraph (records Subgraph of create(); answers the two fixed queries of get_model; row order symbolic)',
              'pjo MakeLiteral memoised; pjo class building untraced'],
    'assumptions': ['Cypher pattern (a)-[r1]->(b),(a)<-[r2]-(b) yields every pair of distinct relationships a->b, b->a (relationship isomorphism)'],
    'requires': ['ingest_model', 'ingest_attack_graph', 'get_model'],
}
get_query = getter(queries)
