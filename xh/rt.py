"""Harness runtime shared by the CrossHair driver and the plain replay.

A *query* is a body `body(cube: dict, **args) -> str` ('' = property held on this
input, anything else = description of the failure) plus typed scalar parameters.
`run_body` is what the generated CrossHair wrapper calls on every path.
"""
from __future__ import annotations

try:  # only present in the analysis interpreter, not in the replay interpreter
    from crosshair.core import realize as _realize
    from crosshair.tracers import NoTracing as _NoTracing, is_tracing as _is_tracing
except Exception:  # pragma: no cover
    _realize = None
    _NoTracing = None
    _is_tracing = None

STATS = {'ok_paths': 0, 'fail_paths': 0, 'pre_rejected': 0}
CEX: list = []          # realised arguments of failing paths (last one is reported)


def tracing() -> bool:
    return bool(_is_tracing and _is_tracing())


class notrace:
    """`with notrace():` suspends CrossHair tracing (no-op in a plain interpreter)."""

    def __enter__(self):
        self._cm = None
        if _NoTracing is not None and tracing():
            self._cm = _NoTracing()
            self._cm.__enter__()
        return self

    def __exit__(self, *a):
        if self._cm is not None:
            return self._cm.__exit__(*a)
        return False


class reclimit:
    """Bound Python recursion while real code runs on concrete inputs (a runaway recursion must surface as
    RecursionError quickly; CrossHair raises the interpreter limit for its own needs)."""

    def __init__(self, extra=600):
        self.extra = extra

    def __enter__(self):
        import sys
        import inspect
        self.old = sys.getrecursionlimit()
        depth = len(inspect.stack(0))
        sys.setrecursionlimit(min(self.old, depth + self.extra))
        return self

    def __exit__(self, *a):
        import sys
        sys.setrecursionlimit(self.old)
        return False


def realize(v):
    if _realize is None:
        return v
    r = _realize(v)
    if isinstance(r, bool):
        return bool(r)
    if isinstance(r, int):
        return int(r)
    if isinstance(r, float):
        return float(r)
    return r


def pick(i, xs):
    """xs[i] by an if-chain: one solver decision per alternative, never a symbolic index."""
    n = len(xs)
    for k in range(n - 1):
        if i == k:
            return xs[k]
    return xs[n - 1]


def run_body(body, cube, args):
    sym_args = args
    if '_fixed' in cube:
        with notrace():  # plain dict merge; no operation on the (possibly symbolic) values
            merged = {}
            merged.update(cube['_fixed'])
            merged.update(args)
        args = merged
    try:
        r = body(cube, **args)
    except Exception as e:  # CrossHair's control-flow exceptions are BaseException
        if type(e).__name__ == 'NotDeterministic':
            raise
        r = 'EXC %s: %s' % (type(e).__name__, str(e)[:300])
    if r is None:
        r = ''
    if not isinstance(r, str):
        r = 'harness returned non-str %r' % (r,)
    if r != '':
        STATS['fail_paths'] += 1
        CEX.append(({k: realize(v) for k, v in sym_args.items()}, r))
    else:
        # no realisation here: realising forks the search tree (ModelValueNode)
        STATS['ok_paths'] += 1
    return r
