"""C10 - saving and loading an attack graph preserves it."""
from __future__ import annotations

import copy
import os

from xh.spec import Query, B, I, getter
from xh.g import new_graph, add_nodes, link, wellformed, idx
from xh.rt import notrace, pick, reclimit
from xh import langs, mb
from xh.h_c09 import L_MINI

PROP = 'C10'
DSTAT = [None, 0.0, 0.5, 1.0, 0.125]
ESTAT = [None, True, False]
TAGS = [[], ['x'], ['x', 'y z']]
EXTRAS = [{}, {'k': 'v', 'n': {'deep': [1, 'two']}}, {'none': None, 'zero': 0, 'f': False}]
TTCS = [None, {'type': 'function', 'name': 'Exponential', 'arguments': [0.1]}]
MITRE = [None, 'T1059', '']
FMT = ['json', 'yml', 'yaml']
_CNT = [0]


def typed_compare(g, l, with_model=None):
    """'' if the loaded graph l equals g field by field (typed)."""
    if len(g.nodes) != len(l.nodes):
        return 'loaded graph has %d nodes, saved graph %d' % (len(l.nodes), len(g.nodes))
    lnodes = {}
    for m in l.nodes:
        if type(m.id) is not int or m.id in lnodes:
            return 'loaded node id %r is not a unique int' % (m.id,)
        lnodes[m.id] = m
    for n in g.nodes:
        m = lnodes.get(n.id)
        if m is None:
            return 'node %s (id %r) missing after loading' % (n.full_name, n.id)
        for f in ('type', 'name', 'ttc', 'mitre_info', 'extras'):
            if getattr(n, f) != getattr(m, f):
                return 'node %s: %s is %r after loading, was %r' % (n.full_name, f, getattr(m, f), getattr(n, f))
        if m.full_name != n.full_name:
            return 'node %s has full name %s after loading' % (n.full_name, m.full_name)
        if n.defense_status != m.defense_status or (m.defense_status is not None and type(m.defense_status) is not float):
            return 'node %s: defense_status %r after loading, was %r' % (n.full_name, m.defense_status, n.defense_status)
        for f in ('existence_status', 'is_viable', 'is_necessary'):
            a, b = getattr(n, f), getattr(m, f)
            if a != b or (b is not None and type(b) is not bool):
                return 'node %s: %s is %r after loading, was %r' % (n.full_name, f, b, a)
        if type(m.tags) is not list or any(type(t) is not str for t in m.tags) or list(n.tags) != m.tags:
            return 'node %s: tags are %r after loading, were %r' % (n.full_name, m.tags, n.tags)
        if set(c.id for c in n.children) != set(c.id for c in m.children):
            return 'node %s: children differ after loading' % n.full_name
        if set(c.id for c in n.parents) != set(c.id for c in m.parents):
            return 'node %s: parents differ after loading' % n.full_name
        if sorted(a.id for a in n.compromised_by) != sorted(a.id for a in m.compromised_by):
            return 'node %s: compromised_by differs after loading' % n.full_name
        if with_model is not None:
            want = with_model.get_asset_by_name(n.asset.name) if n.asset is not None else None
            if m.asset is not want:
                return 'node %s is not bound to the model asset of that name after loading' % n.full_name
    if len(g.attackers) != len(l.attackers):
        return 'loaded graph has %d attackers, saved graph %d' % (len(l.attackers), len(g.attackers))
    la = {a.id: a for a in l.attackers}
    for a in g.attackers:
        b = la.get(a.id)
        if b is None:
            return 'attacker id %r missing after loading (loaded ids %s)' % (a.id, sorted(la))
        if a.name != b.name:
            return 'attacker %r renamed to %r' % (a.name, b.name)
        if sorted(x.id for x in a.entry_points) != sorted(x.id for x in b.entry_points):
            return 'attacker %s: entry points differ after loading' % a.name
        if sorted(x.id for x in a.reached_attack_steps) != sorted(x.id for x in b.reached_attack_steps):
            return 'attacker %s: reached steps differ after loading' % a.name
    return wellformed(l)


def roundtrip(g, fmt, model=None):
    from maltoolbox.attackgraph import AttackGraph
    _CNT[0] += 1
    path = os.path.join(os.getcwd(), 'c10_%d_%d.%s' % (os.getpid(), _CNT[0], fmt))
    try:
        g.save_to_file(path)
        if model is not None:
            return AttackGraph.load_from_file(path, model=model)
        return AttackGraph.load_from_file(path)
    finally:
        try:
            os.remove(path)
        except OSError:
            pass


def body_rt(cube, **kw):
    from maltoolbox.attackgraph import Attacker
    n = cube['n']
    fmt = pick(kw['fmt'], FMT)
    with notrace():
        g = new_graph()
        nodes = add_nodes(g, (['defense', 'or', 'and'])[:n])
    for i in range(n):
        nd = nodes[i]
        nd.is_viable = kw.get('v%d' % i, True)
        nd.is_necessary = kw.get('c%d' % i, True)
    # node 0 carries the attribute picks, the others are rich
    nodes[0].defense_status = pick(kw['ds'], DSTAT)
    nodes[0].existence_status = pick(kw['es'], ESTAT)
    nodes[0].tags = list(pick(kw['tg'], TAGS))
    nodes[0].extras = copy.deepcopy(pick(kw['ex'], EXTRAS))
    nodes[0].ttc = copy.deepcopy(pick(kw['tt'], TTCS))
    nodes[0].mitre_info = pick(kw['mi'], MITRE)
    for i in range(1, n):
        nodes[i].tags = ['x', 'y z']
        nodes[i].extras = {'k': i}
        nodes[i].ttc = copy.deepcopy(TTCS[1])
    for i in range(n):
        for j in range(n):
            e = 'e%d%d' % (i, j)
            if (kw[e] if e in kw else (e in cube['edges'])):
                link(nodes[i], nodes[j])
    same = kw['same']
    ida = pick(kw['ida'], [None, 0, 5])
    a = Attacker(name='att')
    b = Attacker(name='att' if same else 'other')
    with notrace():
        g.add_attacker(b, attacker_id=3)
        g.add_attacker(a, attacker_id=ida)
        if ida is not None and a.id != ida:
            return 'add_attacker(attacker_id=%r) assigned id %r' % (ida, a.id)
    for i in range(n):
        if kw.get('ra%d' % i, False):
            a.compromise(nodes[i])
    if kw.get('ep', True):
        a.entry_points = list(a.reached_attack_steps)
    b.compromise(nodes[n - 1])
    b.entry_points = [nodes[0]]
    if kw['pr']:
        from maltoolbox.attackgraph.analyzers.apriori import prune_unviable_and_unnecessary_nodes
        prune_unviable_and_unnecessary_nodes(g)
    for nd in g.nodes:   # the serialisation would realise the flags anyway; do it here, under tracing
        nd.is_viable = bool(nd.is_viable)
        nd.is_necessary = bool(nd.is_necessary)
    with notrace():      # everything is concrete from here on
        l = roundtrip(g, fmt)
        return typed_compare(g, l)


def body_model(cube, **kw):
    """Generated graph saved and loaded with the model supplied."""
    from maltoolbox.attackgraph import AttackGraph
    from maltoolbox.model import AttackerAttachment
    from maltoolbox.attackgraph.analyzers.apriori import calculate_viability_and_necessity, prune_unviable_and_unnecessary_nodes
    fmt = pick(kw['fmt'], FMT)
    linkb, dval, att, ana, prune, withm = bool(kw['l']), pick(kw['d'], [None, 0.0, 1.0, 0.3]), bool(kw['at']), bool(kw['an']), bool(kw['pr']), bool(kw['wm'])
    goal = bool(kw['goal']) if 'goal' in kw else False
    with notrace(), reclimit():
        lg, lcf = langs.build_lang(L_MINI())
        m, assets = mb.build_model(lcf, ['N', 'N'], names=['srv', 'db:1'])
        if linkb:
            mb.add_link(m, lcf, 'PQ', 'p', [assets[0]], 'q', [assets[1]])
        if dval is not None:
            assets[1].d = dval
        if att:
            at = AttackerAttachment(name='att')
            at.entry_points = [(assets[0], ['a']), (assets[1], ['c', 'b'])]
            m.add_attacker(at)
        g = AttackGraph(lg, m)
        g.attach_attackers()
        if ana:
            calculate_viability_and_necessity(g)
        if prune:
            prune_unviable_and_unnecessary_nodes(g)
        g.nodes[0].extras = {'note': 'x'}
        if goal:
            from maltoolbox.attackgraph import AttackGraphNode
            x = AttackGraphNode(type='or', name='goal')
            g.add_node(x)
            g.nodes[0].children.append(x); x.parents.append(g.nodes[0])
        l = roundtrip(g, fmt, model=m if withm else None)
        if withm:
            return typed_compare(g, l, with_model=m)
        # without the model nodes cannot be bound to assets; compare everything else
        if len(l.nodes) != len(g.nodes):
            return 'loaded graph has %d nodes, saved graph %d' % (len(l.nodes), len(g.nodes))
        lx = {x.id: x for x in l.nodes}
        for n in g.nodes:
            x = lx.get(n.id)
            if x is None:
                return 'node %s missing after loading without the model' % n.full_name
            if (n.id, n.type, n.name, n.ttc, n.defense_status, n.existence_status, n.is_viable, n.is_necessary, list(n.tags)) != \
                    (x.id, x.type, x.name, x.ttc, x.defense_status, x.existence_status, x.is_viable, x.is_necessary, x.tags):
                return 'node %s differs after loading without the model: %r vs %r' % (n.full_name,
                    (n.id, n.type, n.name, n.ttc, n.defense_status, n.existence_status, n.is_viable, n.is_necessary, list(n.tags)),
                    (x.id, x.type, x.name, x.ttc, x.defense_status, x.existence_status, x.is_viable, x.is_necessary, x.tags))
            if set(c.id for c in n.children) != set(c.id for c in x.children):
                return 'node %s: children differ after loading without the model' % n.full_name
        if sorted((a.id, a.name, sorted(s.id for s in a.reached_attack_steps), sorted(s.id for s in a.entry_points)) for a in g.attackers) != \
                sorted((a.id, a.name, sorted(s.id for s in a.reached_attack_steps), sorted(s.id for s in a.entry_points)) for a in l.attackers):
            return 'attackers differ after loading without the model'
    return ''


def queries(tier):
    picks = [I('ds', 0, 4), I('es', 0, 2), I('tg', 0, 2), I('ex', 0, 2), I('tt', 0, 1), I('mi', 0, 2)]
    nondef = '(ds == 0) + (es == 0) + (tg == 0) + (ex == 0) + (tt == 0) + (mi == 0)'
    if tier == 'quick':
        n = 2
        ps = [I('fmt', 0, 2), B('same'), B('pr')] + picks + [I('ida', 0, 2), B('v0'), B('c0'), B('ra0'), B('ra1'), B('ep')]
        pre = [nondef + ' >= 5']
        cube = {'n': n, 'edges': ['e01', 'e11']}
        timeout = 400
        cap = 1
    else:
        n = 3
        ps = [I('fmt', 0, 2), B('same'), B('pr')] + picks + [I('ida', 0, 2), B('v0'), B('c0'), B('ra0'), B('ra1'), B('e01'), B('ep')]
        pre = [nondef + ' >= 4']
        cube = {'n': n, 'edges': ['e20', 'e11', 'e12']}
        timeout = 1700
        cap = 2
    w = {p.name: (1 if p.typ == 'int' else True) for p in ps}
    w.update({'same': False, 'ds': 0, 'es': 0, 'ex': 0, 'tt': 0})
    qs = [Query(name='rt', body=body_rt, params=ps, cubes=[cube], split=['fmt', 'same', 'pr'] + (['ida'] if tier != 'quick' else []), pre=pre,
                timeout=timeout, witnesses=[(cube, w)],
                bound='%d hand-built nodes: node 0 with attribute picks (defense %s, existence %s, tags %s, extras, ttc, mitre; at most %d non-default '
                      'families at once), symbolic viability/necessity flags, edges %s plus symbolic ones, two attackers (same/different name, ids '
                      '{None,0,5} and 3), reached sets, entry points equal to the reached set or empty, optional pruning, formats %s' % (n, DSTAT, ESTAT, TAGS, cap, cube['edges'], FMT))]
    ps = [I('fmt', 0, 2), B('l'), I('d', 0, 3), B('at'), B('an'), B('pr'), B('wm'), B('goal')]
    qs.append(Query(name='model', body=body_model, params=ps, split=['fmt'], timeout=500,
                    witnesses=[({}, {'fmt': 0, 'l': True, 'd': 2, 'at': True, 'an': True, 'pr': True, 'wm': True, 'goal': True}),
                               ({}, {'fmt': 1, 'l': True, 'd': 3, 'at': True, 'an': False, 'pr': False, 'wm': False, 'goal': False})],
                    bound='graph generated from a 2-asset L_MINI model (asset names srv and db:1; link, defense value, model attacker symbolic), '
                          'optionally analysed and pruned, saved and loaded with or without the model, formats %s' % FMT))
    return qs


META = {
    'bounds': 'hand-built graphs of 2 (quick) / 3 (thorough) nodes and a generated 2-asset graph; json, yml and yaml',
    'outside': ['more than 3 hand-built nodes', 'node names needing YAML escaping beyond "db:1" and "y z"', 'several attribute families non-default at once beyond the stated cap'],
    'stubs': ['pjo MakeLiteral memoised; pjo class building untraced'],
    'assumptions': ['list order of children/parents is not observed; order of nodes is'],
    'requires': ['AttackGraphNode.to_dict', 'Attacker.to_dict', 'AttackGraph._to_dict', 'AttackGraph._from_dict', 'AttackGraph.save_to_file',
                 'AttackGraph.load_from_file', 'save_dict_to_file', 'load_dict_from_yaml_file', 'load_dict_from_json_file'],
}
get_query = getter(queries)
