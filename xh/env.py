"""Scratch copy of /repo's working tree and import plumbing.

Every check analyses a private copy of /repo/maltoolbox (working tree, not HEAD)
so that (a) importing maltoolbox, which creates tmp/log.txt relative to the cwd,
never writes into /repo or /verif, (b) an edit of /repo during the run cannot mix
two trees, and (c) a digest of exactly the analysed sources goes into evidence.
"""
from __future__ import annotations

import hashlib
import os
import shutil
import sys
import tempfile

REPO = os.environ.get('VERIF_REPO', '/repo')
VERIF = os.path.dirname(os.path.dirname(os.path.abspath(__file__)))


def make_scratch() -> str:
    base = os.environ.get('XDG_RUNTIME_DIR') or tempfile.gettempdir()
    d = tempfile.mkdtemp(prefix='malverif-', dir=base if os.path.isdir(base) else None)
    shutil.copytree(os.path.join(REPO, 'maltoolbox'), os.path.join(d, 'maltoolbox'),
                    ignore=shutil.ignore_patterns('__pycache__', '*.pyc'))
    td = os.path.join(REPO, 'tests', 'testdata')
    if os.path.isdir(td):
        shutil.copytree(td, os.path.join(d, 'testdata'))
    os.makedirs(os.path.join(d, 'work'), exist_ok=True)
    return d


def tree_digest(scratch: str) -> str:
    h = hashlib.sha256()
    root = os.path.join(scratch, 'maltoolbox')
    for dp, dn, fn in sorted(os.walk(root)):
        dn.sort()
        for f in sorted(fn):
            if f.endswith(('.py', '.conf', '.g4')):
                p = os.path.join(dp, f)
                h.update(os.path.relpath(p, root).encode())
                with open(p, 'rb') as fh:
                    h.update(fh.read())
    return h.hexdigest()[:16]


def activate(scratch: str) -> None:
    """Make `import maltoolbox` resolve to the scratch copy; cwd -> scratch/work."""
    os.environ['PYTHONDONTWRITEBYTECODE'] = '1'
    sys.dont_write_bytecode = True
    for p in (VERIF, scratch):
        if p in sys.path:
            sys.path.remove(p)
        sys.path.insert(0, p)
    os.chdir(os.path.join(scratch, 'work'))
    import logging
    logging.disable(logging.CRITICAL)
    import maltoolbox  # noqa
    assert os.path.abspath(maltoolbox.__file__).startswith(os.path.abspath(scratch)), \
        f'maltoolbox resolved to {maltoolbox.__file__}, not the scratch copy'


def remove_scratch(scratch: str) -> None:
    shutil.rmtree(scratch, ignore_errors=True)
