"""C13 - pruning removes exactly the non-viable or unnecessary attack steps."""
from __future__ import annotations

import itertools

from xh.spec import Query, B, I, getter
from xh.g import new_graph, add_nodes, link, wellformed, has_identity
from xh.rt import notrace, pick

PROP = 'C13'
T3 = ['or', 'and', 'defense']
T4 = ['or', 'and', 'defense', 'exist', 'notExist']


def _prune_and_check(g, nodes, types, flags, seen_ids, seen_names):
    from maltoolbox.attackgraph.analyzers.apriori import prune_unviable_and_unnecessary_nodes
    n = len(nodes)
    prune_unviable_and_unnecessary_nodes(g)
    for i in range(n):
        v, nec = flags[i]
        prunable = types[i] in ('or', 'and') and (not v or not nec)
        with notrace():
            present = has_identity(g.nodes, nodes[i])
        if prunable and present:
            return 'node %d (%s, viable=%s, necessary=%s) survived pruning' % (i, types[i], bool(v), bool(nec))
        if not prunable:
            if not present:
                return 'node %d (%s) was pruned although it is viable and necessary or not an or/and step' % (i, types[i])
            if nodes[i].is_viable is not v and nodes[i].is_viable != v:
                return 'label is_viable of node %d changed' % i
            if nodes[i].is_necessary is not nec and nodes[i].is_necessary != nec:
                return 'label is_necessary of node %d changed' % i
            if nodes[i].type != types[i]:
                return 'type of node %d changed' % i
    with notrace():
        return wellformed(g, seen_ids, seen_names)


def body_prune(cube, **kw):
    n = cube['n']
    types = cube['types']
    with notrace():
        g = new_graph()
        if cube.get('idperm'):
            from maltoolbox.attackgraph import AttackGraphNode
            nodes = []
            for i, t in enumerate(types):
                nd = AttackGraphNode(type=t, name='n%d' % i)
                g.add_node(nd, node_id=cube['idperm'][i])      # list order differs from id order
                nodes.append(nd)
        else:
            nodes = add_nodes(g, types)
        if 'defense' in types:
            for x in nodes:
                if x.type == 'defense':
                    x.defense_status = 0.5
        for x in nodes:
            if x.type in ('exist', 'notExist'):
                x.existence_status = True
        if cube.get('idperm'):
            for x in nodes:
                x.ttc = {'type': 'function', 'name': 'Exponential', 'arguments': [0.1]}
        seen_ids = [x.id for x in nodes]
        seen_names = [x.full_name for x in nodes]
    flags = []
    for i in range(n):
        v, nec = kw['v%d' % i], kw['c%d' % i]
        nodes[i].is_viable = v
        nodes[i].is_necessary = nec
        flags.append((v, nec))
    for i in range(n):
        for j in range(n):
            if kw['e%d%d' % (i, j)]:
                link(nodes[i], nodes[j])
                if kw.get('dbl', False):
                    link(nodes[i], nodes[j])        # parallel edge (two reaches expressions hitting the same target)
    return _prune_and_check(g, nodes, types, flags, seen_ids, seen_names)


def body_prune_att(cube, **kw):
    from maltoolbox.attackgraph import Attacker
    n = 3
    types = [pick(kw['t%d' % i], T3) for i in range(n)]
    with notrace():
        g = new_graph()
        nodes = add_nodes(g, types)
        att = Attacker(name='att')
        g.add_attacker(att)
        seen_ids = [x.id for x in nodes]
        seen_names = [x.full_name for x in nodes]
    flags = []
    for i in range(n):
        v, nec = kw['v%d' % i], kw['c%d' % i]
        nodes[i].is_viable = v
        nodes[i].is_necessary = nec
        flags.append((v, nec))
    for i in range(n):
        if kw['r%d' % i]:
            att.compromise(nodes[i])
    if kw['ep']:
        att.entry_points = list(att.reached_attack_steps)
    elif kw.get('ep2', False):      # optional: recorded witnesses predate this parameter
        att.entry_points = list(nodes)          # entry points the attacker does not (or no longer) hold
    return _prune_and_check(g, nodes, types, flags, seen_ids, seen_names)


def queries(tier):
    qs = []

    def mk(name, n, tset, maxe, timeout):
        ebits = ['e%d%d' % (i, j) for i in range(n) for j in range(n)]
        params = [B('v%d' % i) for i in range(n)] + [B('c%d' % i) for i in range(n)] + [B(e) for e in ebits] + [B('dbl')]
        cubes = [{'n': n, 'types': list(ts), 'idperm': ([2, 0, 1, 3][:n] if k else None)} for k, ts in enumerate(itertools.product(tset, repeat=n))]
        for c in cubes[::2]:
            c['idperm'] = None
        wit = dict({p.name: False for p in params})
        wit.update({'e01': True, 'e12': True})
        return Query(
            name=name, body=body_prune, params=params, cubes=cubes,
            pre=['%s <= %d' % (' + '.join(ebits), maxe), 'not dbl or %s >= 1' % ' + '.join(ebits)], timeout=timeout,
            witnesses=[({'n': n, 'types': ['or', 'and', 'or', 'defense'][:n]}, wit)],
            bound='%d nodes, every type vector over %s (one cube each), symbolic viability/necessity flags, '
                  'every edge set with <= %d edges incl. self-loops, each edge single or doubled (parallel edges)' % (n, tset, maxe))
    if tier == 'quick':
        qs.append(mk('prune3', 3, ['or', 'and', 'notExist'], 1, 240))
    else:
        qs.append(mk('prune3', 3, T4, 1, 1500))
        qs.append(mk('prune4', 4, ['or', 'defense'], 1, 1500))
    n = 3
    params = [I('t%d' % i, 0, 2) for i in range(n)] + [B('v%d' % i) for i in range(n)] + \
             [B('c%d' % i) for i in range(n)] + [B('r%d' % i) for i in range(n)] + [B('ep'), B('ep2')]
    wit = {p.name: (0 if p.typ == 'int' else False) for p in params}
    wit.update({'r0': True, 'r1': True, 'ep': True})
    pre_att = ['not (ep and ep2)']
    qs.append(Query(name='prune_att', body=body_prune_att, params=params, timeout=600,
                    witnesses=[({}, wit)], split=['t0', 't1', 't2'], pre=pre_att,
                    bound='3 isolated nodes, symbolic type picks over %s, symbolic flags, one attacker with every '
                          'reached set, entry points = reached, all nodes or empty' % T3))
    return qs


META = {
    'bounds': 'hand-built labelled graphs of 3 nodes (quick: types {or,and,defense}, <=2 edges; thorough: 4 types, '
              '<=3 edges) and 4 nodes (thorough, <=1 edge); one attacker on 3 isolated nodes',
    'outside': ['more than 4 nodes', 'more edges than the stated cap', 'several attackers'],
    'stubs': [],
    'assumptions': ['labels are assigned directly to is_viable/is_necessary (the property is about all labelled graphs)'],
    'requires': ['prune_unviable_and_unnecessary_nodes', 'AttackGraph.remove_node'],
}
get_query = getter(queries)
