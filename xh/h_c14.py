"""C14 - a deep copy of an attack graph is equal and fully independent."""
from __future__ import annotations

import copy

from xh.spec import Query, B, I, getter
from xh.g import new_graph, add_nodes, link, wellformed, has_identity, idx
from xh.rt import notrace, pick

PROP = 'C14'
TAGS = [[], ['t1'], ['t1', 't2']]
EXTRAS = [{}, {'k': 'v'}, {'k': {'deep': [1, 2]}}]
TTCS = [None, {'type': 'function', 'name': 'Exponential', 'arguments': [0.1]},
        {'type': 'addition', 'lhs': {'type': 'function', 'name': 'Exponential', 'arguments': [0.1]},
         'rhs': {'type': 'number', 'value': 2.0}}]
MUTS = ['tags.append', 'extras[k]=', 'extras nested append', "ttc['name']=", 'ttc nested append', 'link child',
        'compromise', 'undo_compromise', 'remove_node', 'add_node', 'is_viable flip', 'attacker rename',
        'remove_attacker', 'defense_status=']


def shares_mutable(a, b, path='', depth=0):
    """Identity walk: '' if no mutable container reachable from a is reachable from b at the same position."""
    if isinstance(a, (dict, list)):
        if a is b:
            return path or '<root>'
        if isinstance(a, dict) and isinstance(b, dict):
            for k in a:
                if k in b:
                    r = shares_mutable(a[k], b[k], path + '[%r]' % (k,), depth + 1)
                    if r:
                        return r
        elif isinstance(a, list) and isinstance(b, list):
            for i in range(min(len(a), len(b))):
                r = shares_mutable(a[i], b[i], path + '[%d]' % i, depth + 1)
                if r:
                    return r
    return ''


def independent(g, c):
    """No node, attacker or mutable per-node datum shared; all references of c stay inside c."""
    if c is g:
        return 'copy is the original'
    if c.nodes is g.nodes or c.attackers is g.attackers:
        return 'node/attacker list shared'
    if len(c.nodes) != len(g.nodes) or len(c.attackers) != len(g.attackers):
        return 'copy has a different number of nodes/attackers'
    for n, m in zip(g.nodes, c.nodes):
        if n is m:
            return 'node %s shared' % n.full_name
        if has_identity(g.nodes, m):
            return 'copy lists an original node'
        for attr in ('type', 'name', 'id', 'defense_status', 'existence_status', 'is_viable', 'is_necessary', 'mitre_info', 'ttc', 'tags', 'extras'):
            if getattr(n, attr) != getattr(m, attr):
                return '%s of node %s differs in the copy (%r vs %r)' % (attr, n.full_name, getattr(m, attr), getattr(n, attr))
        for attr in ('children', 'parents', 'compromised_by', 'tags', 'extras'):
            if getattr(n, attr) is getattr(m, attr):
                return '%s of node %s shared' % (attr, n.full_name)
        for attr in ('tags', 'extras', 'ttc', 'attributes'):
            r = shares_mutable(getattr(n, attr), getattr(m, attr))
            if r:
                return '%s%s of node %s shared between original and copy' % (attr, '' if r == '<root>' else r, n.full_name)
        for x in m.children + m.parents:
            if not has_identity(c.nodes, x):
                return 'copy node %s references a node outside the copy' % m.full_name
        for a in m.compromised_by:
            if not has_identity(c.attackers, a):
                return 'copy node %s is compromised by an attacker outside the copy' % m.full_name
        if c.get_node_by_id(m.id) is not m or c.get_node_by_full_name(m.full_name) is not m:
            return 'lookup in the copy does not return the copy node %s' % m.full_name
    for a, b in zip(g.attackers, c.attackers):
        if a is b:
            return 'attacker shared'
        if a.entry_points is b.entry_points or a.reached_attack_steps is b.reached_attack_steps:
            return 'attacker lists shared'
        for x in b.entry_points + b.reached_attack_steps:
            if not has_identity(c.nodes, x):
                return 'copy attacker references a node outside the copy'
        if c.get_attacker_by_id(b.id) is not b:
            return 'attacker lookup in the copy does not return the copy attacker'
    return ''


def mutate(g, m, ni, nodes_of):
    """Apply mutation m (concrete index) to graph g; nodes_of(g) gives its node list."""
    from maltoolbox.attackgraph import AttackGraphNode, Attacker
    ns = g.nodes
    n = ns[ni % len(ns)]
    o = ns[(ni + 1) % len(ns)]
    if m == 0:
        n.tags.append('zz')
    elif m == 1:
        n.extras['new'] = 'zz'
    elif m == 2:
        if 'k' in n.extras and isinstance(n.extras['k'], dict):
            n.extras['k']['deep'].append(99)
        else:
            n.extras['k2'] = 'zz'
    elif m == 3:
        if n.ttc is not None:
            n.ttc['name'] = 'Changed'
        else:
            n.ttc = {'type': 'function', 'name': 'Changed', 'arguments': []}
    elif m == 4:
        if n.ttc is not None and 'arguments' in n.ttc:
            n.ttc['arguments'].append(7.0)
        elif n.ttc is not None and 'lhs' in n.ttc:
            n.ttc['lhs']['arguments'].append(7.0)
        else:
            n.tags.append('zz')
    elif m == 5:
        link(n, o)
    elif m == 6:
        g.attackers[0].compromise(n)
    elif m == 7:
        g.attackers[0].undo_compromise(n)
    elif m == 8:
        g.remove_node(n)
    elif m == 9:
        g.add_node(AttackGraphNode(type='or', name='fresh'))
    elif m == 10:
        n.is_viable = not n.is_viable
    elif m == 11:
        g.attackers[0].name = 'renamed'
    elif m == 12:
        g.remove_attacker(g.attackers[0])
    else:
        n.defense_status = 0.25


def _rich(i):
    return (list(TAGS[1 + i % 2]), copy.deepcopy(EXTRAS[2 - i % 2]), copy.deepcopy(TTCS[1 + i % 2]))


def _build(cube, kw):
    from maltoolbox.attackgraph import Attacker
    n = cube['n']
    with notrace():
        g = new_graph()
        nodes = add_nodes(g, (['or', 'and', 'defense'] * 2)[:n])
        a0 = Attacker(name='a0'); g.add_attacker(a0)
        a1 = Attacker(name='a1'); g.add_attacker(a1)
    for i in range(n):
        tags, extras, ttc = _rich(i)
        if ('tg%d' % i) in kw:
            tags = list(pick(kw['tg%d' % i], TAGS))
        if ('ex%d' % i) in kw:
            extras = copy.deepcopy(pick(kw['ex%d' % i], EXTRAS))
        if ('tt%d' % i) in kw:
            ttc = copy.deepcopy(pick(kw['tt%d' % i], TTCS))
        nodes[i].tags, nodes[i].extras, nodes[i].ttc = tags, extras, ttc
        nodes[i].mitre_info = 'T10%d' % i
        if ('v%d' % i) in kw:
            nodes[i].is_viable = bool(kw['v%d' % i])
        if nodes[i].type == 'defense':
            nodes[i].defense_status = 0.5
    for i in range(n):
        for j in range(n):
            e = 'e%d%d' % (i, j)
            if (kw[e] if e in kw else (e in cube.get('edges', ()))):
                link(nodes[i], nodes[j])
    if kw.get('swap', False) and kw.get('rb', True):
        a1.compromise(nodes[n - 1])             # the later-listed attacker compromises the shared node first
    for i in range(n):
        r = 'r%d' % i
        if (kw[r] if r in kw else (i == 0)):
            a0.compromise(nodes[i])
    if kw.get('ep', True):
        a0.entry_points = list(a0.reached_attack_steps)
    elif kw.get('ep2', False):
        a0.entry_points = list(nodes)         # entry points the attacker has not (or no longer) reached
    if kw.get('rb', True):
        a1.compromise(nodes[n - 1])
    if kw.get('rm0', False):
        from maltoolbox.attackgraph import AttackGraphNode
        first = AttackGraphNode(type='or', name='early')
        g.add_node(first)
        link(first, nodes[0])
        link(nodes[n - 1], first)
        nodes.append(first)
    if kw.get('rm', False):
        from maltoolbox.attackgraph import AttackGraphNode
        extra = AttackGraphNode(type='or', name='gone')
        g.add_node(extra)
        g.remove_node(extra)        # highest id handed out is no longer in the graph
    return g


def _copy_and_compare(g):
    if getattr(g, '_verif_drop_first', False):
        g.remove_node(g.nodes[0])          # ids are no longer equal to list positions
    c = copy.deepcopy(g)
    d_g, d_c = g._to_dict(), c._to_dict()
    with notrace():
        if d_g != d_c:
            return c, d_g, d_c, 'serialised copy differs from the original'
        if c.next_node_id != g.next_node_id or c.next_attacker_id != g.next_attacker_id:
            return c, d_g, d_c, 'id counters differ'
        if c.model is not g.model or c.lang_graph is not g.lang_graph:
            return c, d_g, d_c, 'model / language not shared by identity'
        r = independent(g, c)
        if r:
            return c, d_g, d_c, r
        r = wellformed(c)
        if r:
            return c, d_g, d_c, 'copy: ' + r
    return c, d_g, d_c, ''


def body_struct(cube, **kw):
    g = _build(cube, kw)
    if kw.get('rm0', False):
        g._verif_drop_first = True
    return _copy_and_compare(g)[3]


def body_gen(cube, **kw):
    """Deep copy of a GENERATED graph (nodes bound to model assets): the copy is used on its own afterwards."""
    from maltoolbox.attackgraph import AttackGraph
    from maltoolbox.model import AttackerAttachment
    from maltoolbox.attackgraph.analyzers.apriori import calculate_viability_and_necessity
    from xh import langs, mb
    from xh.h_c09 import L_MINI
    from xh.rt import reclimit
    linkb, attach_before, ana, op = bool(kw['l']), bool(kw['ab']), bool(kw['an']), idx(kw['op'], 4)
    with notrace(), reclimit():
        lg, lcf = langs.build_lang(L_MINI())
        m, A = mb.build_model(lcf, ['N', 'N'], names=['x', 'y'])
        if linkb:
            mb.add_link(m, lcf, 'PQ', 'p', [A[0]], 'q', [A[1]])
        t = AttackerAttachment(name='att')
        m.add_attacker(t)
        t.add_entry_point(A[0], 'a'); t.add_entry_point(A[1], 'c')
        g = AttackGraph(lg, m)
        if attach_before:
            g.attach_attackers()
        if ana:
            calculate_viability_and_necessity(g)
        c, d_g, d_c, r = _copy_and_compare(g)
        if r:
            return r
        if c.model is not m or c.lang_graph is not lg:
            return 'the copy does not share model and language with the original'
        # the copy is used on its own
        if op == 0:
            c.attach_attackers()
        elif op == 1:
            c.regenerate_graph(); c.attach_attackers()
        elif op == 2:
            calculate_viability_and_necessity(c)
            from maltoolbox.attackgraph.analyzers.apriori import prune_unviable_and_unnecessary_nodes
            prune_unviable_and_unnecessary_nodes(c)
        else:
            if c.attackers:
                c.remove_attacker(c.attackers[0])
            c.remove_node(c.nodes[0])
        if g._to_dict() != d_g:
            return 'using the copy (%s) changed the original graph' % ['attach_attackers', 'regenerate + attach', 'analyse + prune', 'remove attacker and node'][op]
        for a in c.attackers:
            for n in a.reached_attack_steps + a.entry_points:
                if not has_identity(c.nodes, n):
                    return 'an attacker of the copy references a node outside the copy after %s' % ['attach_attackers', 'regenerate + attach', 'analyse + prune', 'remove'][op]
        for n in g.nodes:
            for a in n.compromised_by:
                if not has_identity(g.attackers, a):
                    return 'a node of the original is compromised by an attacker of the copy'
        r = wellformed(c)
        if r:
            return 'copy after use: ' + r
        r = wellformed(g)
        if r:
            return 'original after the copy was used: ' + r
    return ''


def body_mut(cube, **kw):
    """Fixed rich graph (every container kind on every node); symbolic mutation sequence on either side."""
    n = cube['n']
    g = _build(cube, kw)
    c, d_g, d_c, r = _copy_and_compare(g)
    if r:
        return r
    for s in range(cube['steps']):
        m = idx(kw['m%d' % s], len(MUTS))
        ni = idx(kw['mn%d' % s], n)
        if kw['side%d' % s]:
            target, other, d_other, who = c, g, d_g, 'copy'
        else:
            target, other, d_other, who = g, c, d_c, 'original'
        if len(target.nodes) == 0 or (m in (6, 7, 11, 12) and not target.attackers):
            continue
        mutate(target, m, ni, None)
        d_after = other._to_dict()
        with notrace():
            if d_after != d_other:
                return 'step %d: mutation "%s" of node %d of the %s is visible in the other graph' % (s, MUTS[m], ni, who)
            r = wellformed(other)
            if r:
                return 'step %d: after mutating the %s (%s) the other graph is broken: %s' % (s, who, MUTS[m], r)
        d_g, d_c = g._to_dict(), c._to_dict()
    return ''


def queries(tier):
    qs = []
    if tier == 'quick':
        n = 2
        ebits = ['e%d%d' % (i, j) for i in range(n) for j in range(n)]
        ps = [I('tg0', 0, 2), I('ex0', 0, 2), I('tt0', 0, 2), B('r0'), B('r1'), B('ep'), B('ep2'), B('rm'), B('rm0'), B('swap')] + [B(e) for e in ebits]
        qs.append(Query(name='struct', body=body_struct, params=ps, cubes=[{'n': n}], split=['tg0', 'ex0'],
                        pre=['%s <= 2' % ' + '.join(ebits), 'not rm or (r0 and not r1)', 'not swap or (r1 and not rm and %s == 0)' % ' + '.join(ebits), 'not ep2 or (not ep and not rm and not swap)', 'not rm0 or (not rm and not swap and not ep2)'], timeout=400,
                        witnesses=[({'n': n}, {p.name: (1 if p.typ == 'int' else True) for p in ps})],
                        bound='2 nodes; node 0 with every tag/extras/TTC pick (%d combos), node 1 rich; <= 2 edges incl. self-loops; '
                              'two attackers, every reached set of a0, entry points on/off' % 27))
        ps = [I('m0', 0, len(MUTS) - 1), I('mn0', 0, n - 1), B('side0'), B('e01'), B('e11')]
        qs.append(Query(name='mut', body=body_mut, params=ps, cubes=[{'n': n, 'steps': 1}], split=['side0'], timeout=400,
                        witnesses=[({'n': n, 'steps': 1}, {'m0': m, 'mn0': 0, 'side0': True, 'e01': True, 'e11': True}) for m in range(len(MUTS))],
                        bound='2 rich nodes (tags, nested extras, function/composite TTC), symbolic edges 0->1 and 1->1; one mutation of %s '
                              'on any node of the copy or of the original' % MUTS))
    else:
        n = 3
        ebits = ['e%d%d' % (i, j) for i in range(n) for j in range(n)]
        ps = [I('tg0', 0, 2), I('ex0', 0, 2), I('tt0', 0, 2), I('tt1', 0, 2), B('r0'), B('r1'), B('r2'), B('ep'), B('ep2'), B('rm'), B('rm0')] + \
             [B(e) for e in ebits]
        qs.append(Query(name='struct', body=body_struct, params=ps, cubes=[{'n': n}], split=['tg0', 'ex0'],
                        pre=['%s <= 1' % ' + '.join(ebits), 'not (ep and ep2)', 'not (rm and rm0)'], timeout=1700,
                        witnesses=[({'n': n}, dict({p.name: (1 if p.typ == 'int' else True) for p in ps}, ep2=False, rm0=False))],
                        bound='3 nodes; node 0 every pick, node 1 every TTC pick, node 2 rich; <= 1 edge; every reached set of a0; entry points = reached / all nodes / none; '
                              'copy after the highest-id or the lowest-id node was removed'))
        ps = []
        for s in range(2):
            ps += [I('m%d' % s, 0, len(MUTS) - 1), I('mn%d' % s, 0, n - 1), B('side%d' % s)]
        qs.append(Query(name='mut', body=body_mut, params=ps, cubes=[{'n': n, 'steps': 2, 'edges': ['e01', 'e12', 'e22', 'e20']}],
                        split=['m0', 'side0'], timeout=1700,
                        witnesses=[({'n': n, 'steps': 2, 'edges': ['e01', 'e12']},
                                    {'m0': m, 'mn0': 0, 'side0': True, 'm1': (m + 3) % len(MUTS), 'mn1': 1, 'side1': False})
                                   for m in range(len(MUTS))],
                        bound='3 rich nodes, edges 0->1->2->0 and 2->2; every sequence of two mutations from %s on any node of either graph' % MUTS))
    qs.append(Query(name='gen', body=body_gen, params=[B('l'), B('ab'), B('an'), I('op', 0, 3)], timeout=400,
                    witnesses=[({}, {'l': True, 'ab': True, 'an': True, 'op': 0}), ({}, {'l': True, 'ab': False, 'an': False, 'op': 2})],
                    bound='graph generated from a 2-asset L_MINI model with a model attacker (optionally attached / analysed), deep-copied; then the copy alone is '
                          'attached / regenerated / pruned / reduced, and the original must be unchanged and both graphs self-contained'))
    return qs


META = {
    'bounds': 'hand-built graphs of 2 (quick) / 3 (thorough) nodes; one mutation after the copy; generated graphs are covered by C16/C09',
    'outside': ['mutation sequences longer than one step', 'graphs with more than 3 nodes'],
    'stubs': [],
    'assumptions': ['sharing of `asset` (model object) is intended: the property says model and language are shared'],
    'requires': ['AttackGraph.__deepcopy__', 'AttackGraphNode.__deepcopy__', 'Attacker.__deepcopy__'],
}
get_query = getter(queries)
