"""C16 - graph generation is deterministic and does not disturb its inputs."""
from __future__ import annotations

import copy
import json
import os
import shutil
import subprocess
import sys
import zipfile

from xh.spec import Query, B, I, getter
from xh.g import idx, has_identity
from xh.rt import notrace, pick, reclimit
from xh import langs, mb, malprint
from xh.h_c02 import T0, T1, DV, PTYPES

PROP = 'C16'
_CNT = [0]


CSV = [None, (1, 3, 3, 3), (2, 2, 3, 0)]


def build(t0, t1, dp, l02, l102, l12, att, cs=0):
    from maltoolbox.model import AttackerAttachment
    spec = langs.L_INH(CSV[cs])
    lg, lcf = langs.build_lang(spec)
    types = [T0[t0], T1[t1], 'O']
    m, assets = mb.build_model(lcf, types, names=['first', 'second one', 'o:3'], ids=[2, 10, 7])
    if DV[dp] is not None:
        assets[0].dP = DV[dp]
    if l02:
        mb.add_link(m, lcf, 'L', 'ps', [assets[0]], 'os', [assets[2]])
    if l102:
        mb.add_link(m, lcf, 'L1', 'ps1', [assets[0]], 'os1', [assets[2]])
    if l12:
        if types[1] in PTYPES:
            mb.add_link(m, lcf, 'L', 'ps', [assets[1]], 'os', [assets[2]])
        else:
            mb.add_link(m, lcf, 'L', 'ps', [assets[0]], 'os', [assets[1]])
    if types[1] == 'O' and l12:
        mb.add_link(m, lcf, 'Chain', 'prv', [assets[1]], 'nxt', [assets[2]])
        mb.add_link(m, lcf, 'Chain', 'prv', [assets[2]], 'nxt', [assets[2]])
    if att:
        t = AttackerAttachment(name='att')
        m.add_attacker(t)
        t.add_entry_point(assets[0], 'tP')
        t.add_entry_point(assets[0], 'nosuchstep')
        t.add_entry_point(assets[0], 's')
        t.add_entry_point(assets[2], 'tO')
    return spec, lg, lcf, m, assets


def full_graph(lg, m):
    from maltoolbox.attackgraph import AttackGraph
    from maltoolbox.attackgraph.analyzers.apriori import calculate_viability_and_necessity
    g = AttackGraph(lg, m)
    g.attach_attackers()
    calculate_viability_and_necessity(g)
    return g


def body_inproc(cube, **kw):
    c = (idx(kw['t0'], 3), idx(kw['t1'], 3), idx(kw['dp'], 4), int(bool(kw['l02'])), int(bool(kw['l102'])), int(bool(kw['l12'])), int(bool(kw['att'])))
    c = c + ((idx(kw['cs'], len(CSV)) if 'cs' in kw else 0),)
    via = idx(kw['via'], 3)      # 0: direct API twice, 1: wrapper with .mar, 2: wrapper with .mal
    with notrace(), reclimit():
        spec, lg, lcf, m, assets = build(*c)
        md0 = copy.deepcopy(m._to_dict())      # _to_dict hands out the model's own entry-point lists
        sp0 = copy.deepcopy(lg._lang_spec)
        g1 = full_graph(lg, m)
        d1 = g1._to_dict()
        if m._to_dict() != md0:
            return 'generation/analysis changed the serialised model'
        if lg._lang_spec != sp0 or lg._lang_spec != spec:
            return 'generation/analysis changed the language specification'
        g2 = full_graph(lg, m)
        d2 = g2._to_dict()
        if d1 != d2:
            return 'two generations from the same language and model differ'
        if list(d1['attack_steps'].keys()) != list(d2['attack_steps'].keys()):
            return 'node order differs between two generations'
        for n in g1.nodes:
            if has_identity(g2.nodes, n):
                return 'two graphs built from the same model share node %s' % n.full_name
            for c_ in n.children + n.parents:
                if has_identity(g2.nodes, c_):
                    return 'graph 1 references a node of graph 2'
        if g1._to_dict() != d1:
            return 'the second generation changed the first graph'
        if m._to_dict() != md0 or lg._lang_spec != sp0:
            return 'the second generation changed model or language'
        # two further graphs generated back to back, then the OLDER one is attached and analysed
        from maltoolbox.attackgraph import AttackGraph as _AG
        from maltoolbox.attackgraph.analyzers.apriori import calculate_viability_and_necessity as _calc
        g3 = _AG(lg, m)
        g4 = _AG(lg, m)
        g3.attach_attackers()
        _calc(g3)
        if g3._to_dict() != d1:
            return 'a graph that is attached and analysed after another graph was generated from the same model differs from the first result'
        for a_ in g3.attackers:
            for n_ in a_.reached_attack_steps + a_.entry_points:
                if not has_identity(g3.nodes, n_):
                    return 'attaching attackers to one graph reached a node of another graph generated from the same model'
        if _AG(lg, m)._to_dict() != g4._to_dict():
            return 'a freshly generated graph differs from the one generated before the attach/analysis of its sibling'
        if via > 0:
            from maltoolbox.wrappers import create_attack_graph
            _CNT[0] += 1
            d = os.path.join(os.getcwd(), 'c16_%d_%d' % (os.getpid(), _CNT[0]))
            os.makedirs(d)
            try:
                mp = os.path.join(d, 'model.json' if via == 1 else 'model.yml')
                m.save_to_file(mp)
                if via == 1:
                    lp = os.path.join(d, 'lang.mar')
                    with zipfile.ZipFile(lp, 'w') as z:
                        z.writestr('langspec.json', json.dumps(spec))
                else:
                    lp = os.path.join(d, 'main.mal')
                    with open(lp, 'w', encoding='utf-8') as f:
                        f.write(malprint.program(spec))
                os.makedirs('tmp', exist_ok=True)
                gw = create_attack_graph(lp, mp)
                dw = gw._to_dict()
                # the other switch combinations of the wrapper against the same steps of the direct API
                for at_, ca_ in ((False, True), (True, False), (False, False)):
                    gx = create_attack_graph(lp, mp, attach_attackers=at_, calc_viability_and_necessity=ca_)
                    gy = _AG(lg, m)
                    if at_:
                        gy.attach_attackers()
                    if ca_:
                        _calc(gy)
                    if gx._to_dict() != gy._to_dict():
                        return 'create_attack_graph(attach_attackers=%s, calc_viability_and_necessity=%s) differs from the direct API' % (at_, ca_)
            finally:
                shutil.rmtree(d, ignore_errors=True)
            if dw != d1:
                a, b = d1['attack_steps'], dw['attack_steps']
                for k in a:
                    if k not in b or a[k] != b[k]:
                        return 'create_attack_graph(%s) differs from the direct API at node %s: %r vs %r' % (
                            ['', '.mar + json', '.mal + yml'][via], k, a[k], b.get(k))
                return 'create_attack_graph(%s) differs from the direct API (attackers or extra nodes)' % ['', '.mar', '.mal'][via]
    return ''


def body_seeds(cube, **kw):
    """Fresh processes with different PYTHONHASHSEED values: an enumerated configuration, not a solver variable."""
    c = (idx(kw['t0'], 3), idx(kw['t1'], 3), 2, 1, int(bool(kw['l102'])), 1, 1)
    with notrace():
        scratch = os.path.dirname(os.getcwd())
        verif = os.path.dirname(os.path.dirname(os.path.abspath(__file__)))
        digs = []
        for seed in cube['seeds']:
            e = dict(os.environ)
            e['PYTHONHASHSEED'] = str(seed)
            e['PYTHONDONTWRITEBYTECODE'] = '1'
            p = subprocess.run(['/venv/bin/python', '-m', 'xh.c16_digest', scratch] + [str(x) for x in c], cwd=verif, env=e,
                               capture_output=True, text=True, timeout=300)
            line = [l for l in p.stdout.splitlines() if l.startswith('DIGEST ')]
            if not line:
                return 'digest process failed (seed %s): %s' % (seed, (p.stderr or p.stdout)[-300:])
            digs.append(line[0])
        spec, lg, lcf, m, assets = build(*c)
        import hashlib
        here = 'DIGEST ' + hashlib.sha256(json.dumps(full_graph(lg, m)._to_dict(), sort_keys=False, default=str).encode()).hexdigest()
        if len(set(digs + [here])) != 1:
            return 'serialised graph differs between processes / hash seeds %s: %s' % (cube['seeds'], sorted(set(digs + [here])))
    return ''


def queries(tier):
    ps = [I('t0', 0, 2), I('t1', 0, 2), I('dp', 0, 3), B('l02'), B('l102'), B('l12'), B('att'), I('via', 0, 2), I('cs', 0, len(CSV) - 1)]
    pre = ['via == 0 or (dp <= 1 and l102)', 'cs == 0 or (dp == 0 and l02 and l12)'] if tier == 'quick' else ['cs == 0 or dp <= 1']
    qs = [Query(name='inproc', body=body_inproc, params=ps, split=['t0', 'via', 't1'], pre=pre, timeout=600 if tier == 'quick' else 1700,
                witnesses=[({}, {'t0': 1, 't1': 0, 'dp': 2, 'l02': True, 'l102': True, 'l12': True, 'att': True, 'via': 0, 'cs': 0}),
                           ({}, {'t0': 0, 't1': 2, 'dp': 0, 'l02': True, 'l102': True, 'l12': False, 'att': True, 'via': 1, 'cs': 1}),
                           ({}, {'t0': 2, 't1': 1, 'dp': 1, 'l02': False, 'l102': True, 'l12': True, 'att': False, 'via': 2, 'cs': 2})],
                bound='3-asset L_INH models with asset ids 2, 10, 7 (the C02 bound: type, defense and link picks, model attacker on/off; 3 redefinition variants of step s): generate + attach + analyse twice; '
                      'model, language specification and first graph unchanged, no shared node; create_attack_graph from a .mar + json and from a .mal + yml '
                      'file pair equals the direct API')]
    seeds = [0, 1, 12345] if tier == 'quick' else [0, 1, 2, 12345, 4294967295]
    ps = [I('t0', 0, 2), I('t1', 0, 2), B('l102')]
    pre = ['t0 == t1'] if tier == 'quick' else []
    qs.append(Query(name='seeds', body=body_seeds, params=ps, cubes=[{'seeds': seeds}], pre=pre, split=['t0'] if tier != 'quick' else [], timeout=900,
                    witnesses=[({'seeds': seeds[:2]}, {'t0': 1, 't1': 1, 'l102': True})],
                    bound='configuration-enumerated (not solver-decided): the same generation in fresh interpreters under PYTHONHASHSEED in %s gives one digest' % seeds))
    return qs


META = {
    'bounds': 'L_INH 3-asset models; two generations per path; wrapper via .mar and .mal; hash seeds enumerated',
    'outside': ['PYTHONHASHSEED cannot be a symbolic variable: the fresh-process clause is an enumerated configuration (DESIGN C16)',
                'languages other than L_INH for the wrapper clause'],
    'stubs': ['pjo MakeLiteral memoised; pjo class building untraced (not in the helper processes)'],
    'assumptions': ['the .mal route relies on the printer xh/malprint.py (validated by C04 on coreLang)'],
    'requires': ['AttackGraph._generate_graph', 'create_attack_graph', 'AttackGraph.attach_attackers', 'calculate_viability_and_necessity',
                 'LanguageGraph.from_mar_archive', 'LanguageGraph.from_mal_spec', 'Model.load_from_file'],
}
get_query = getter(queries)
