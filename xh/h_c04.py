"""C04 - the MAL compiler's output is the language the source text denotes."""
from __future__ import annotations

import copy
import json
import os
import shutil
import zipfile

from xh.spec import Query, B, I, getter
from xh.g import idx
from xh.rt import notrace, pick, reclimit
from xh import langs, malprint
from xh.langs import fld, astep, collect, union, inter, diff, var, trans, sub, to

PROP = 'C04'
_CNT = [0]

N = lambda v: {'type': 'number', 'value': float(v)}
FN = lambda n, *a: {'type': 'function', 'name': n, 'arguments': [float(x) for x in a]}
OP = lambda t, l, r: {'type': t, 'lhs': l, 'rhs': r}
TTCS = [
    None, FN('Enabled'), FN('Exponential', 0.1), FN('Gamma', 1.5, 2),
    OP('multiplication', FN('Exponential', 0.1), N(2)),
    OP('multiplication', OP('multiplication', FN('Exponential', 0.1), N(2)), N(3)),
    OP('division', OP('division', N(2), N(4)), N(8)),
    OP('division', OP('multiplication', N(2), N(3)), N(4)),
    OP('subtraction', OP('addition', N(1), N(2)), N(3)),
    OP('addition', OP('subtraction', OP('addition', N(1), N(2)), N(3)), N(4)),
    OP('multiplication', OP('addition', N(1), N(2)), N(3)),
    OP('subtraction', N(1), OP('subtraction', N(2), N(3))),
    OP('division', N(8), OP('division', N(4), N(2))),
    OP('exponentiation', N(2), N(3)),
    OP('addition', FN('Bernoulli', 0.5), OP('multiplication', FN('Exponential', 0.1), N(3))),
    OP('multiplication', N(2), OP('exponentiation', OP('addition', N(3), N(4)), N(2))),
    OP('exponentiation', OP('exponentiation', N(2), N(3)), N(2)),
    OP('addition', N(0.5), OP('multiplication', N(1.25), FN('Exponential', 0.1))),
]
MULTS = [(1, 1), (0, None), (0, 1), (1, None), (2, 3), (3, 3), (2, None), (0, 0)]
STYPES = ['or', 'and', 'defense', 'exist', 'notExist']
TAGSETS = [[], ['hidden'], ['hidden', 'debug']]


def exprs():
    q, s, p = fld('q'), fld('s'), fld('p')
    v = var('vv')
    base = [e for _, e in langs.lset_catalogue()]
    extra = [sub('T', q), sub('T', collect(q, s)), collect(sub('T', q), s), sub('U', sub('T', q)), trans(sub('T', q)), sub('T', trans(q)),
             collect(q, sub('T', union(s, p))), union(sub('T', q), s), inter(q, union(s, p)), union(q, inter(s, p)), diff(q, union(s, p)),
             union(diff(q, s), p), collect(collect(q, s), p), collect(q, collect(s, p)), collect(union(q, s), union(s, p)),
             trans(union(q, s)), trans(collect(q, s)), collect(v, sub('T', q)), union(v, v), collect(trans(q), trans(s))]
    return base + extra


EXPRS = exprs()


def base_spec():
    L = langs
    T = L.asset('T', steps=[L.step('t', 'or'), L.step('u', 'and', reaches=[astep('t')])], category='Main')
    U = L.asset('U', sup='T', steps=[], category='Main')
    X = L.asset('X', steps=[L.step('t', 'or'), L.step('victim', 'or', reaches=[astep('t')])],
                variables=[('vv', union(fld('q'), fld('s')))], category='Main')
    sp = L.spec([T, U, X], [L.assoc('PQ', 'X', 'p', L.MANY, 'X', 'q', L.MANY), L.assoc('RS', 'X', 'r', L.MANY, 'T', 's', L.MANY),
                                L.assoc('PQ', 'X', 'p2', L.MANY, 'X', 'q2', (0, 1))],
                lang_id='verif.c04', version='0.0.1')
    return sp


def compile_layout(files):
    from maltoolbox.language.compiler import MalCompiler
    _CNT[0] += 1
    d = os.path.join(os.getcwd(), 'c04_%d_%d' % (os.getpid(), _CNT[0]))
    os.makedirs(d)
    try:
        for n, t in files.items():
            with open(os.path.join(d, n), 'w', encoding='utf-8') as f:
                f.write(t)
        return MalCompiler().compile(os.path.join(d, 'main.mal'))
    finally:
        shutil.rmtree(d, ignore_errors=True)


def first_diff(a, b, path=''):
    if type(a) != type(b) and not (isinstance(a, (int, float)) and isinstance(b, (int, float)) and not isinstance(a, bool) and not isinstance(b, bool)):
        return '%s: %r vs %r' % (path, a, b)
    if isinstance(a, dict):
        for k in sorted(set(a) | set(b)):
            if k not in a or k not in b:
                return '%s/%s only on one side' % (path, k)
            r = first_diff(a[k], b[k], path + '/' + str(k))
            if r:
                return r
        return ''
    if isinstance(a, list):
        if len(a) != len(b):
            return '%s: %d vs %d items' % (path, len(a), len(b))
        for i, (x, y) in enumerate(zip(a, b)):
            r = first_diff(x, y, path + '/%d' % i)
            if r:
                return r
        return ''
    return '' if a == b else '%s: %r vs %r' % (path, a, b)


def check_spec(spec, layout_names):
    lay = malprint.layouts(spec)
    for ln in layout_names:
        if ln not in lay:
            continue        # layout not applicable to this specification (e.g. no category with two assets)
        try:
            got = compile_layout(lay[ln])
        except Exception as e:
            return 'layout %s: compiler raised %s: %s on\n%s' % (ln, type(e).__name__, e, lay[ln]['main.mal'][:300])
        r = first_diff(spec, got)
        if r:
            return 'layout %s: compiled specification differs from the one printed at %s' % (ln, r)
    return ''


LAYOUTS = ['single', 'assets_included', 'assocs_included', 'include_twice', 'nested', 'category_split_over_include', 'category_reopened', 'with_comments']


def body_prog(cube, **kw):
    fam = cube['family']
    # 1. decide every pick (solver decisions), 2. build the concrete program and compile it untraced
    c = {}
    if fam == 'reach':
        c = {'e': idx(kw['e'], len(EXPRS)), 'e2': idx(kw['e2'], 8), 'inh': bool(kw['inh']), 'two': bool(kw['two']), 'loc': bool(kw['loc'])}
    elif fam == 'let':
        c = {'e': idx(kw['e'], len(EXPRS)), 'e2': idx(kw['e2'], len(EXPRS)), 'st': idx(kw['st'], 2), 'two': bool(kw['two'])}
    elif fam == 'step':
        c = {'st': idx(kw['st'], 5), 'tg': idx(kw['tg'], 3), 'cia': bool(kw['cia']), 'meta': bool(kw['meta']), 'nor': bool(kw['nor'])}
        c.update({'c': bool(kw['c']), 'i': bool(kw['i']), 'a': bool(kw['a'])} if c['cia'] else {'c': False, 'i': False, 'a': False})
    elif fam == 'ttc':
        c = {'t': idx(kw['t'], len(TTCS)), 'st': idx(kw['st'], 2)}
    elif fam == 'mult':
        c = {'lm': idx(kw['lm'], len(MULTS)), 'rm': idx(kw['rm'], len(MULTS)), 'meta': bool(kw['meta'])}
    elif fam == 'asset':
        c = {k: bool(kw[k]) for k in ('abs', 'meta', 'cat2', 'noassoc', 'defs')}
        c['lay'] = idx(kw['lay'], len(LAYOUTS))
    with notrace(), reclimit():
        return _build_and_check(fam, c)


def _build_and_check(fam, c):
    sp = base_spec()
    victim = sp['assets'][2]['attackSteps'][1]
    lay = ['single']
    if fam == 'reach':
        victim['reaches'] = {'overrides': not c['inh'], 'stepExpressions': [to(EXPRS[c['e']], 't')] + ([to(EXPRS[c['e2']], 'u')] if c['two'] else []) +
                             ([astep('t')] if c['loc'] else [])}
    elif fam == 'let':
        sp['assets'][2]['variables'].append({'name': 'w', 'stepExpression': copy.deepcopy(EXPRS[c['e']])})
        victim['type'] = ['exist', 'notExist'][c['st']]
        victim['requires'] = {'overrides': True, 'stepExpressions': [copy.deepcopy(EXPRS[c['e2']])] + ([fld('p')] if c['two'] else [])}
    elif fam == 'step':
        victim['type'] = STYPES[c['st']]
        victim['tags'] = list(TAGSETS[c['tg']])
        if c['cia'] and (c['c'] or c['i'] or c['a']):
            victim['risk'] = {'isConfidentiality': c['c'], 'isIntegrity': c['i'], 'isAvailability': c['a']}
        if c['meta']:
            victim['meta'] = {'user': '  padded text  ', 'developer': 'x -> y ', 'mitre': 'T1'}
        if victim['type'] in ('exist', 'notExist'):
            victim['requires'] = {'overrides': True, 'stepExpressions': [fld('q')]}
        if c['nor']:
            victim['reaches'] = None
    elif fam == 'ttc':
        victim['ttc'] = copy.deepcopy(TTCS[c['t']])
        victim['type'] = ['or', 'defense'][c['st']]
    elif fam == 'mult':
        a = sp['associations'][1]
        lm, rm = MULTS[c['lm']], MULTS[c['rm']]
        a['leftMultiplicity'] = {'min': lm[0], 'max': lm[1]}
        a['rightMultiplicity'] = {'min': rm[0], 'max': rm[1]}
        if c['meta']:
            a['meta'] = {'user': ' link '}
    elif fam == 'asset':
        if c['abs']:
            sp['assets'][0]['isAbstract'] = True
        if c['meta']:
            sp['assets'][1]['meta'] = {'user': 'u', 'modeler': 'm'}
            sp['categories'][0]['meta'] = {'user': 'cat'}
        if c['cat2']:
            sp['assets'][2]['category'] = 'Second'
            sp['categories'].append({'name': 'Second', 'meta': {}})
        if c['noassoc']:
            sp['associations'] = []
        if c['defs']:
            sp['defines']['extra'] = ' value with blanks '
        lay = [LAYOUTS[c['lay']]]
    return check_spec(sp, lay)


def body_mult(cube, **kw):
    """_post_process_multitudes on symbolic multatom strings ([0-9]{1,2} or '*'), compared with the MAL rule."""
    from maltoolbox.language.compiler.mal_visitor import malVisitor

    def atom(isstar, d1, two, d2):
        if isstar:
            return '*'
        s = chr(48 + d1)
        if two:
            s = s + chr(48 + d2)
        return s

    def rule(lo, hi):
        # omitted max = min; '*' as min -> 0; '*' as max -> None; digits -> int
        if hi is None:
            hi = lo
        rlo = 0 if lo == '*' else int(lo)
        rhi = None if hi == '*' else int(hi)
        return rlo, rhi
    lmin = atom(kw['ls'], kw['l1'], kw['l2'], kw['l3'])
    rmin = atom(kw['rs'], kw['r1'], kw['r2'], kw['r3'])
    lmax = None if kw['lnone'] else atom(kw['ms'], kw['m1'], False, 0)
    rmax = None if kw['rnone'] else atom(kw['ns'], kw['n1'], False, 0)
    a = {'leftMultiplicity': {'min': lmin, 'max': lmax}, 'rightMultiplicity': {'min': rmin, 'max': rmax}}
    v = malVisitor.__new__(malVisitor)
    v._post_process_multitudes(a)
    wl, wr = rule(lmin, lmax), rule(rmin, rmax)
    gl = (a['leftMultiplicity']['min'], a['leftMultiplicity']['max'])
    gr = (a['rightMultiplicity']['min'], a['rightMultiplicity']['max'])
    for g, w, side in ((gl, wl, 'left'), (gr, wr, 'right')):
        for x, y, nm in ((g[0], w[0], 'min'), (g[1], w[1], 'max')):
            if y is None:
                if x is not None:
                    return '%s %s: got %r, rule says None' % (side, nm, x)
            else:
                if type(x) is bool or not isinstance(x, int) or x != y:
                    return '%s %s: got %r, rule says %r' % (side, nm, x, y)
    return ''


def body_corelang(cube, **kw):
    """Validation on the repository's own fixture: printing the .mar specification and compiling it gives it back."""
    if kw['k']:
        pass
    with notrace(), reclimit():
        mar = os.path.join(os.path.dirname(os.getcwd()), 'testdata', cube['mar'])
        with zipfile.ZipFile(mar) as z:
            spec = json.loads(z.read('langspec.json'))
        return check_spec(spec, LAYOUTS if cube.get('all_layouts') else ['single', 'assets_included'])


def queries(tier):
    qs = []
    ne = len(EXPRS)
    fam = {
        'reach': ([I('e', 0, ne - 1), I('e2', 0, 7), B('inh'), B('two'), B('loc')], ['two', 'inh']),
        'let': ([I('e', 0, ne - 1), I('e2', 0, ne - 1), I('st', 0, 1), B('two')], ['st', 'two']) if tier != 'quick' else
               ([I('e', 0, ne - 1), I('e2', 0, 5), I('st', 0, 1), B('two')], ['st', 'two']),
        'step': ([I('st', 0, 4), I('tg', 0, 2), B('cia'), B('c'), B('i'), B('a'), B('meta'), B('nor')], ['st']),
        'ttc': ([I('t', 0, len(TTCS) - 1), I('st', 0, 1)], []),
        'mult': ([I('lm', 0, len(MULTS) - 1), I('rm', 0, len(MULTS) - 1), B('meta')], ['meta']),
        'asset': ([B('abs'), B('meta'), B('cat2'), B('noassoc'), B('defs'), I('lay', 0, len(LAYOUTS) - 1)], ['lay']),
    }
    for name, (ps, split) in fam.items():
        w = {p.name: (1 if p.typ == 'int' else True) for p in ps}
        if name == 'ttc':
            w['t'] = 5
        qs.append(Query(name=name, body=body_prog, params=ps, cubes=[{'family': name}], split=split, timeout=600 if tier == 'quick' else 1700,
                        witnesses=[({'family': name}, w)],
                        bound={'reach': 'reaches clause of one step: every expression of a %d-entry catalogue (all operators, nesting needing and not needing parentheses, subType, '
                                        'transitive, variable call) x ->/+> x one/two expressions x trailing local step' % ne,
                               'let': 'let definition and requires clause over the expression catalogue (all names must become fields), exist / notExist',
                               'step': 'all 5 step types x tags x CIA subsets x meta x with/without reaches',
                               'ttc': '%d TTC expressions: distributions with 0-2 arguments, left-associative chains of 3-4 terms/factors with mixed operators, '
                                      'parenthesised sub-expressions, ^, INT and FLOAT literals' % len(TTCS),
                               'mult': 'all pairs of %d multiplicity forms %s, association meta' % (len(MULTS), MULTS),
                               'asset': 'abstract, asset/category meta, two categories, no associations, extra define x 7 source layouts (single file, assets included, '
                                        'associations included, include repeated twice, nested includes, one category split over an included file and the including file, '
                                        'one category reopened in the same file)'}[name]))
    ps = [B('ls'), I('l1', 0, 9), B('l2'), I('l3', 0, 9), B('rs'), I('r1', 0, 9), B('r2'), I('r3', 0, 9),
          B('lnone'), B('ms'), I('m1', 0, 9), B('rnone'), B('ns'), I('n1', 0, 9)]
    qs.append(Query(name='multsym', body=body_mult, params=ps, timeout=900 if tier == 'quick' else 1700, split=['ls', 'rs', 'lnone', 'rnone'],
                    witnesses=[({}, {'ls': False, 'l1': 1, 'l2': True, 'l3': 0, 'rs': True, 'r1': 0, 'r2': False, 'r3': 0, 'lnone': True, 'ms': False, 'm1': 0,
                                     'rnone': False, 'ns': True, 'n1': 0})],
                    bound='_post_process_multitudes executed on symbolic multatom strings: min = "*" or 1-2 symbolic digits, max = absent, "*" or 1 symbolic digit, both ends'))
    mars = ['org.mal-lang.coreLang-1.0.0.mar'] + (['corelang-union-common-ancestor.mar'] if tier != 'quick' else [])
    for i, m in enumerate(mars):
        qs.append(Query(name='fixture%d' % i, body=body_corelang, params=[B('k')], cubes=[{'mar': m, 'all_layouts': tier != 'quick'}], timeout=600,
                        witnesses=[({'mar': m, 'all_layouts': False}, {'k': True})],
                        bound='validation on the repository fixture %s: its langspec.json printed as MAL and compiled gives the same specification' % m))
    return qs


META = {
    'bounds': 'program skeleton with one construct family varied at a time (expression catalogue of %d entries, %d TTC expressions, %d multiplicity forms squared, step attributes, '
              'asset/category/layout options); multiplicity post-processing on symbolic strings; coreLang fixtures' % (len(EXPRS), len(TTCS), len(MULTS)),
    'outside': ['identifier spelling (fixed; single letters C I A E are keyword tokens in mal.g4)', 'comments', 'programs not produced by the skeleton',
                'the lexer/parser are executed on concrete text only (symbolic text does not get through ANTLR, DESIGN 2.9)'],
    'stubs': [],
    'assumptions': ['the MAL printer xh/malprint.py is the reference; it is validated on every run against the coreLang .mar fixtures (queries fixture*)',
                    'the program picks are decided by the solver; compiler and visitor then run untraced on the concrete text, except _post_process_multitudes which is '
                    'executed symbolically'],
    'requires': ['MalCompiler.compile', 'malVisitor.visitMal', 'malVisitor.visitExpr', 'malVisitor.visitParts', 'malVisitor.visitPart',
                 'malVisitor._resolve_part_ID_type', 'malVisitor.visitTtcexpr', 'malVisitor.visitTtcterm', 'malVisitor.visitTtcfact',
                 'malVisitor.visitAssociation', 'malVisitor._post_process_multitudes'],
}
get_query = getter(queries)
