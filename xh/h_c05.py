"""C05 - the instance model stays coherent under any history of edits."""
from __future__ import annotations

from xh.spec import Query, B, I, getter
from xh.g import idx, has_identity
from xh.rt import notrace, pick, reclimit
from xh import langs, mb
from xh.h_c09 import L_MINI

PROP = 'C05'
OPS = ['add_asset', 'remove_asset', 'add_association', 'remove_association', 'remove_asset_from_association',
       'add_attacker', 'remove_attacker', 'add_entry_point', 'remove_entry_point', 're-add removed id+name',
       're-add the removed asset object itself']
AIDS = [None, 0, 5, -1, 1]
STEPS = ['a', 'c']


class Abs:
    """Abstract reference model."""

    def __init__(self):
        self.assets = []      # [{'obj', 'id', 'name'}] live, in insertion order
        self.links = []       # [{'obj', 'p': [objs], 'q': [objs]}]
        self.attackers = []   # [{'obj', 'id', 'name', 'eps': [(asset obj, [steps])]}]
        self.ever_ids = []
        self.ever_names = []
        self.removed = []     # [(id, name)] of removed assets
        self.removed_objs = []

    def live(self, obj):
        return any(a['obj'] is obj for a in self.assets)

    def rec(self, obj):
        for a in self.assets:
            if a['obj'] is obj:
                return a
        return None

    def drop_from_links(self, obj):
        keep = []
        for l in self.links:
            if any(x is obj for x in l['p'] + l['q']):
                l['p'] = [x for x in l['p'] if x is not obj]
                l['q'] = [x for x in l['q'] if x is not obj]
                if not l['p'] or not l['q']:
                    continue
            keep.append(l)
        self.links = keep

    def to_dict_core(self):
        assets = {}
        for a in self.assets:
            assets[a['id']] = {'name': a['name'], 'type': 'N'}
        assocs = [{'PQ': {'p': [self.rec(x)['id'] for x in l['p']], 'q': [self.rec(x)['id'] for x in l['q']]}} for l in self.links]
        atts = {}
        for t in self.attackers:
            atts[t['id']] = {'name': t['name'], 'entry_points': {self.rec(o)['id']: {'attack_steps': list(s)} for o, s in t['eps']}}
        return assets, assocs, atts


def observe(m, ab, slots):
    """Compare every observable of the real model with the abstract model; '' if equal."""
    d = m._to_dict()
    assets, assocs, atts = ab.to_dict_core()
    if d['assets'] != assets:
        return '_to_dict assets %r, expected %r' % (d['assets'], assets)
    if list(d['assets'].keys()) != list(assets.keys()):
        return '_to_dict asset order %r, expected %r' % (list(d['assets']), list(assets))
    norm = lambda xs: sorted((sorted(e['PQ']['p']), sorted(e['PQ']['q'])) for e in xs)
    if any(list(e.keys()) != ['PQ'] for e in d['associations']) or norm(d['associations']) != norm(assocs):
        return '_to_dict associations %r, expected %r' % (d['associations'], assocs)
    if d['attackers'] != atts:
        return '_to_dict attackers %r, expected %r' % (d['attackers'], atts)
    ids = [int(a.id) for a in m.assets]
    names = [str(a.name) for a in m.assets]
    if len(set(ids)) != len(ids):
        return 'live asset ids not unique: %s' % ids
    if len(set(names)) != len(names):
        return 'live asset names not unique: %s' % names
    for i in ab.ever_ids:
        want = next((a['obj'] for a in ab.assets if a['id'] == i), None)
        if m.get_asset_by_id(i) is not want:
            return 'get_asset_by_id(%r) returns %s, expected %s' % (i, m.get_asset_by_id(i), 'the live asset' if want else None)
    for nme in ab.ever_names:
        want = next((a['obj'] for a in ab.assets if a['name'] == nme), None)
        if m.get_asset_by_name(nme) is not want:
            return 'get_asset_by_name(%r) returns %s, expected %s' % (nme, m.get_asset_by_name(nme), 'the live asset' if want else None)
    if len(m.associations) != len(ab.links):
        return 'model lists %d associations, expected %d' % (len(m.associations), len(ab.links))
    for l in ab.links:
        if not has_identity(m.associations, l['obj']):
            return 'an association that should be in the model is not listed'
    for a in ab.assets:
        o = a['obj']
        listed = []
        for x in o.associations:
            if not has_identity(listed, x):
                listed.append(x)
        member = [l['obj'] for l in ab.links if any(y is o for y in l['p'] + l['q'])]
        if len(listed) != len(member) or any(not has_identity(member, x) for x in listed):
            return 'asset %s lists %d associations but is a member of %d' % (a['name'], len(listed), len(member))
        for f, opp in (('q', 'p'), ('p', 'q')):
            want = []
            for l in ab.links:
                if any(y is o for y in l[opp]):
                    want += [ab.rec(y)['id'] for y in l[f]]
            got = sorted(int(y.id) for y in m.get_associated_assets_by_field_name(o, f))
            if sorted(set(got)) != sorted(set(want)) or len(got) != len(set(got)) and len(want) == len(set(want)):
                return 'neighbours of %s through field %s are %s, expected %s' % (a['name'], f, got, sorted(want))
    if len(m.attackers) != len(ab.attackers):
        return 'model has %d attackers, expected %d' % (len(m.attackers), len(ab.attackers))
    for t in ab.attackers:
        if not has_identity(m.attackers, t['obj']):
            return 'attacker missing'
        got = [(int(a.id), list(s)) for a, s in t['obj'].entry_points]
        want = [(ab.rec(o)['id'], list(s)) for o, s in t['eps']]
        if sorted(got) != sorted(want):
            return 'attacker entry points %s, expected %s' % (got, want)
        for a, s in t['obj'].entry_points:
            if not has_identity(m.assets, a):
                return 'attacker entry point on an asset that is not in the model'
    return ''


def snapshot(m, ab):
    import copy as _copy
    return (_copy.deepcopy(m._to_dict()), [[id(x) for x in a['obj'].associations] for a in ab.assets],
            [[(id(a), list(s)) for a, s in t['obj'].entry_points] for t in ab.attackers])


def apply_op(m, lcf, ab, slots, o, x, y, z, w, step_no):
    """Returns '' or failure text. x,y,z,w are concrete argument picks."""
    from maltoolbox.model import AttackerAttachment
    ns = lcf.ns
    snap = snapshot(m, ab)
    raised = None
    valid = True
    post = None       # function applying the effect to the abstract model (given the real outcome)
    if o == 0 or o == 9:
        if o == 9:
            if not ab.removed:
                return ''
            rid, rname = ab.removed[-1]
            explicit, name, allow = rid, rname, False
        else:
            explicit = AIDS[x]
            name = 'fresh%d' % step_no if y == 0 else ('N:1' if y == 2 else (ab.assets[0]['name'] if ab.assets else 'fresh'))
            allow = bool(z)
        obj = ns.N(name=name)
        live_ids = [a['id'] for a in ab.assets]
        live_names = [a['name'] for a in ab.assets]
        valid = (explicit is None or explicit not in live_ids) and (name not in live_names or allow)
        try:
            m.add_asset(obj, asset_id=explicit, allow_duplicate_names=allow)
        except Exception as e:
            raised = e
        if raised is None:
            if not valid:
                return 'add_asset(id=%r, name=%r, allow_duplicate_names=%s) was accepted although id/name is in use' % (explicit, name, allow)
            if explicit is not None and int(obj.id) != explicit:
                return 'add_asset(asset_id=%r) assigned id %r' % (explicit, int(obj.id))
            if name not in live_names and str(obj.name) != name:
                return 'add_asset renamed a non-duplicate name %r to %r' % (name, str(obj.name))
            ab.assets.append({'obj': obj, 'id': int(obj.id), 'name': str(obj.name)})
            ab.ever_ids.append(int(obj.id)); ab.ever_names.append(str(obj.name))
            slots.append(obj)
    elif o == 10:
        # the very object that was removed before is added again, without an explicit id
        if not ab.removed_objs:
            return ''
        obj = ab.removed_objs[-1]
        if ab.live(obj):
            return ''
        live_names = [a['name'] for a in ab.assets]
        try:
            m.add_asset(obj)
        except Exception as e:
            raised = e
        valid = True
        if raised is None:
            if int(obj.id) in [a['id'] for a in ab.assets]:
                return 're-added asset object received the id %r which a live asset holds' % int(obj.id)
            ab.assets.append({'obj': obj, 'id': int(obj.id), 'name': str(obj.name)})
            ab.ever_ids.append(int(obj.id)); ab.ever_names.append(str(obj.name))
    elif o == 1:
        obj = slots[x % len(slots)]
        valid = ab.live(obj)
        try:
            m.remove_asset(obj)
        except Exception as e:
            raised = e
        if raised is None and valid:
            rec = ab.rec(obj)
            ab.removed.append((rec['id'], rec['name']))
            ab.removed_objs.append(obj)
            ab.assets = [a for a in ab.assets if a['obj'] is not obj]
            ab.drop_from_links(obj)
            for t in ab.attackers:
                t['eps'] = [(a, s) for a, s in t['eps'] if a is not obj]
    elif o == 2:
        pa, qa = slots[x % len(slots)], slots[y % len(slots)]
        if not (ab.live(pa) and ab.live(qa)):
            return ''          # linking an asset that is not (or no longer) in the model: outside the property
        valid = ab.live(pa) and ab.live(qa) and not any(
            any(u is pa for u in l['p']) and any(u is qa for u in l['q']) for l in ab.links)
        assoc = None
        try:
            assoc = ns.PQ(p=[pa], q=[qa])
            m.add_association(assoc)
        except Exception as e:
            raised = e
        if raised is None:
            if not valid:
                return 'add_association accepted a link that already exists or refers to an asset outside the model'
            ab.links.append({'obj': assoc, 'p': [pa], 'q': [qa]})
    elif o == 3:
        if x < len(ab.links):
            assoc = ab.links[x]['obj']
            valid = True
        else:
            assoc = ns.PQ(p=[slots[0]], q=[slots[1]])
            valid = False
        try:
            m.remove_association(assoc)
        except Exception as e:
            raised = e
        if raised is None and valid:
            ab.links = [l for l in ab.links if l['obj'] is not assoc]
    elif o == 4:
        obj = slots[x % len(slots)]
        if not ab.links:
            return ''
        l = ab.links[y % len(ab.links)]
        valid = ab.live(obj) and any(u is obj for u in l['p'] + l['q'])
        try:
            m.remove_asset_from_association(obj, l['obj'])
        except Exception as e:
            raised = e
        if raised is None and valid:
            l['p'] = [u for u in l['p'] if u is not obj]
            l['q'] = [u for u in l['q'] if u is not obj]
            if not l['p'] or not l['q']:
                ab.links = [k for k in ab.links if k is not l]
    elif o == 5:
        explicit = [None, 0, 7][x % 3]
        if explicit is not None and any(t['id'] == explicit for t in ab.attackers):
            return ''          # attacker id reuse is outside the property
        t = AttackerAttachment(name='att%d' % step_no)
        try:
            m.add_attacker(t, attacker_id=explicit)
        except Exception as e:
            raised = e
        if raised is None:
            if explicit is not None and t.id != explicit:
                return 'add_attacker(attacker_id=%r) assigned id %r' % (explicit, t.id)
            if any(u['id'] == t.id for u in ab.attackers):
                return 'add_attacker assigned an id that another attacker holds'
            ab.attackers.append({'obj': t, 'id': t.id, 'name': t.name, 'eps': []})
    elif o == 6:
        foreign = bool(ab.attackers) and y == 1     # an attachment that is not in the model but carries the id of one that is
        valid = bool(ab.attackers) and not foreign
        ti = (z % len(ab.attackers)) if ab.attackers else 0
        t = ab.attackers[ti]['obj'] if valid else AttackerAttachment(name='ghost')
        if foreign:
            t.id = ab.attackers[ti]['id']
        try:
            m.remove_attacker(t)
        except Exception as e:
            raised = e
        if raised is None and valid:
            ab.attackers = [u for u in ab.attackers if u['obj'] is not t]
    elif o == 7 or o == 8:
        if not ab.attackers:
            return ''
        t = ab.attackers[z % len(ab.attackers)]
        obj = slots[x % len(slots)]
        st = STEPS[y % 2]
        if not ab.live(obj):
            return ''          # entry points on assets outside the model: outside the property
        try:
            if o == 7:
                t['obj'].add_entry_point(obj, st)
            else:
                t['obj'].remove_entry_point(obj, st)
        except Exception as e:
            raised = e
        if raised is None:
            cur = next(((a, s) for a, s in t['eps'] if a is obj), None)
            if o == 7:
                if cur is None:
                    t['eps'].append((obj, [st]))
                elif st not in cur[1]:
                    cur[1].append(st)
            elif cur is not None and st in cur[1]:
                cur[1].remove(st)
                if not cur[1]:
                    t['eps'] = [(a, s) for a, s in t['eps'] if a is not obj]
    if raised is not None:
        if valid:
            return '%s with valid arguments raised %s: %s' % (OPS[o], type(raised).__name__, raised)
        if snapshot(m, ab) != snap:
            return '%s raised %s but changed the observable state' % (OPS[o], type(raised).__name__)
    return observe(m, ab, slots)


def body_hist(cube, **kw):
    from maltoolbox.model import AttackerAttachment
    k = cube['k']
    bits = {b: bool(kw[b]) for b in ('x2', 'l01', 'l12', 'l00', 'pk', 'att')}
    bits['ps'] = bool(kw['ps']) if 'ps' in kw else False
    bits['nm'] = bool(kw['nm']) if 'nm' in kw else False
    bits['att2'] = bool(kw['att2']) if 'att2' in kw else False
    bits['un'] = bool(kw['un']) if 'un' in kw else False
    ops = []
    for s in range(k):
        o = idx(kw['o%d' % s], len(OPS))
        # arguments are read lazily
        x = idx(kw['x%d' % s], 5) if o in (0, 1, 2, 3, 4, 5, 7, 8) else 0
        y = idx(kw['y%d' % s], 4) if o in (0, 2, 4, 6, 7, 8) else 0
        z = idx(kw['z%d' % s], 2) if o in (0, 6, 7, 8) else 0
        ops.append((o, x, y, z))
    with notrace(), reclimit():
        lg, lcf = langs.build_lang(L_MINI())
        from maltoolbox.model import Model
        m = Model('m', lcf)
        ab = Abs()
        slots = []
        for i in range(3 if bits['x2'] else 2):
            if i == 1 and bits['un']:
                a = lcf.ns.N()                 # no name: the model generates '<type>:<id>'
            else:
                a = lcf.ns.N(name=('a0:5' if (i == 1 and bits['nm']) else 'a%d' % i))
            m.add_asset(a)
            ab.assets.append({'obj': a, 'id': int(a.id), 'name': str(a.name)})
            ab.ever_ids.append(int(a.id)); ab.ever_names.append(str(a.name))
            slots.append(a)

        def L(ps, qs):
            assoc = lcf.ns.PQ(p=[slots[i] for i in ps], q=[slots[i] for i in qs])
            m.add_association(assoc)
            ab.links.append({'obj': assoc, 'p': [slots[i] for i in ps], 'q': [slots[i] for i in qs]})
        if bits['pk'] and bits['x2']:
            L([0], [1, 2])
        elif bits['l01']:
            L([0], [1])
        if bits['l12'] and bits['x2'] and not bits['pk']:
            L([1], [2])
        if bits['l00']:
            if bits['ps'] and bits['x2'] and not bits['pk']:
                L([0, 1], [0, 2])      # asset 0 in both fields, each field keeps another member
            else:
                L([0], [0])
        if bits['att']:
            t = AttackerAttachment(name='att')
            m.add_attacker(t)
            t.add_entry_point(slots[1], 'a')
            ab.attackers.append({'obj': t, 'id': t.id, 'name': t.name, 'eps': [(slots[1], ['a'])]})
        if bits['att2']:
            t2 = AttackerAttachment(name='att two')
            m.add_attacker(t2)
            t2.add_entry_point(slots[0], 'c')
            t2.add_entry_point(slots[1], 'a')
            t2.add_entry_point(slots[1], 'c')
            ab.attackers.append({'obj': t2, 'id': t2.id, 'name': t2.name, 'eps': [(slots[0], ['c']), (slots[1], ['a', 'c'])]})
        r = observe(m, ab, slots)
        if r:
            return 'pre-state %s: %s' % (bits, r)
        for s, (o, x, y, z) in enumerate(ops):
            r = apply_op(m, lcf, ab, slots, o, x, y, z, 0, s)
            if r:
                return 'pre-state %s, step %d %s(%d,%d,%d): %s' % ({b: v for b, v in bits.items() if v}, s, OPS[o], x, y, z, r)
    return ''


def queries(tier):
    k = 1 if tier == 'quick' else 2
    ps = [B(b) for b in ('x2', 'l01', 'l12', 'l00', 'pk', 'att', 'ps', 'nm', 'att2', 'un')]
    for s in range(k):
        ps += [I('o%d' % s, 0, len(OPS) - 1), I('x%d' % s, 0, 4), I('y%d' % s, 0, 3), I('z%d' % s, 0, 1)]
    wit = []
    for o in range(len(OPS)):
        w = {p.name: (1 if p.typ == 'int' else True) for p in ps}
        w.update({'o0': o, 'pk': False, 'ps': (o % 2 == 1), 'l12': (o % 2 == 0), 'nm': False, 'att2': False, 'un': False})
        if k > 1:
            w['o1'] = 9 if o == 1 else (o + 1) % len(OPS)
        wit.append(({'k': k}, w))
    qs = []
    if True:
        # removal followed by re-adding the removed id and name (no trace in the reserved ids and names)
        ps2 = [B(b) for b in ('x2', 'l01', 'l12', 'l00', 'pk', 'att', 'ps')] + [I('x0', 0, 4)] + \
              [I('o1', 0, len(OPS) - 1), I('x1', 0, 4), I('y1', 0, 3), I('z1', 0, 1)]
        w = {p.name: (1 if p.typ == 'int' else True) for p in ps2}
        w.update({'pk': False, 'ps': True, 'l12': False, 'o1': 9})
        qs.append(Query(name='readd', body=body_hist, params=ps2, cubes=[{'k': 2, '_fixed': {'o0': 1}}], pre=['o1 == 9', 'not ps or (l00 and x2 and not pk and not l12)'],
                        split=['x0'], timeout=600, witnesses=[({'k': 2, '_fixed': {'o0': 1}}, w)],
                        bound='every pre-state, remove_asset of every slot, then re-adding the removed id and name with duplicates forbidden'))
        ps3 = [B(b) for b in ('x2', 'l01', 'l12', 'l00', 'pk', 'att')] + [I('x0', 0, 4), I('y0', 0, 3), I('z0', 0, 1), I('x1', 0, 4), I('y1', 0, 3), I('z1', 0, 1)]
        w3 = {p.name: (1 if p.typ == 'int' else True) for p in ps3}
        w3.update({'pk': False, 'x0': 2, 'y0': 1, 'z0': 0, 'x1': 2, 'y1': 0, 'z1': 1})
        qs.append(Query(name='rejadd', body=body_hist, params=ps3, cubes=[{'k': 2, '_fixed': {'o0': 0, 'o1': 0}}],
                        pre=['y0 == 1 and z0 == 0', 'x1 == x0', 'l12 == l01 and not l00 and not pk'], split=['x0'], timeout=600,
                        witnesses=[({'k': 2, '_fixed': {'o0': 0, 'o1': 0}}, w3)],
                        bound='add_asset rejected for its duplicate name (every explicit id) followed by add_asset with the same id: a raising call leaves no trace'))
        ps4 = [B(b) for b in ('x2', 'l01', 'att')] + [I('x0', 0, 4), I('x1', 0, 4), I('y1', 0, 3), I('z1', 0, 1)]
        w4 = {'x2': True, 'l01': True, 'att': False, 'x0': 1, 'x1': 0, 'y1': 0, 'z1': 1}
        qs.append(Query(name='attadd', body=body_hist, params=ps4, cubes=[{'k': 2, '_fixed': {'o0': 5, 'o1': 0, 'l12': False, 'l00': False, 'pk': False}}],
                        pre=['x0 <= 2'], timeout=600, witnesses=[({'k': 2, '_fixed': {'o0': 5, 'o1': 0, 'l12': False, 'l00': False, 'pk': False}}, w4)],
                        bound='add_attacker with id None / 0 / 7 followed by add_asset with every id/name pick (assets and attackers draw ids from one counter)'))
        ps5 = [B('att'), I('x0', 0, 4), I('y0', 0, 3), I('o1', 0, len(OPS) - 1), I('x1', 0, 4), I('y1', 0, 3)]
        base5 = {'x2': True, 'l01': False, 'l12': False, 'l00': True, 'pk': False, 'ps': True, 'nm': False, 'z0': 0, 'z1': 0}
        c5 = [{'k': 2, '_fixed': dict(base5, o0=o)} for o in (1, 4)]
        qs.append(Query(name='pack2', body=body_hist, params=ps5, cubes=c5, pre=['o1 == 1 or o1 == 4 or o1 == 3'],
                        timeout=600, witnesses=[(c5[0], {'att': True, 'x0': 2, 'y0': 0, 'o1': 1, 'x1': 0, 'y1': 0})],
                        bound='association p=[a0,a1], q=[a0,a2] (asset 0 in both fields): every pair of removals (remove_asset, remove_asset_from_association, '
                              'then also remove_association) with every argument'))
        ps6 = [B('l01'), B('att'), I('x0', 0, 2), I('x1', 0, 4), I('y1', 0, 1), I('z1', 0, 1)]
        c6 = {'k': 3, '_fixed': {'x2': True, 'l12': False, 'l00': False, 'pk': False, 'o0': 1, 'o1': 0, 'o2': 10}}
        qs.append(Query(name='reobj', body=body_hist, params=ps6, cubes=[c6], timeout=600,
                        witnesses=[(c6, {'l01': True, 'att': True, 'x0': 0, 'x1': 1, 'y1': 0, 'z1': 1})],
                        bound='remove_asset of every slot, add_asset of a new asset with every id pick, then the removed asset OBJECT itself is added again'))
        ps7 = [B('att'), I('x0', 0, 4), I('y0', 0, 3), I('o1', 0, len(OPS) - 1), I('x1', 0, 4), I('y1', 0, 3), I('z1', 0, 1)]
        c7 = {'k': 2, '_fixed': {'x2': True, 'l01': True, 'l12': False, 'l00': False, 'pk': False, 'ps': False, 'nm': False, 'att2': False, 'un': True, 'o0': 2, 'z0': 0}}
        qs.append(Query(name='unrm', body=body_hist, params=ps7, cubes=[c7], split=['o1'], timeout=600,
                        witnesses=[(c7, {'att': True, 'x0': 0, 'y0': 2, 'o1': 3, 'x1': 1, 'y1': 0, 'z1': 0})],
                        bound='pre-state with an asset that was added without a name and one link; add_association with every member pick, then every operation '
                              '(two associations of one type: membership tests must not rely on structural equality)'))
    return qs + [Query(name='hist', body=body_hist, params=ps, cubes=[{'k': k}], split=['o0', 'x0'] if k == 1 else ['o0', 'o1'],
                       pre=['not ps or (l00 and x2 and not pk and not l12)', 'not nm or (not l12 and not l00 and not pk)', 'not att2 or (not l12 and not l00 and not pk and not nm)', 'not un or (not nm and not att2 and not l00 and not pk and not l12)'] if k == 1 else
                       ['x2 and att and l01 and not l12 and not pk', 'not ps or l00', 'not nm or not l00', 'not att2 or (not l00 and not nm)', 'not un or (not nm and not att2 and not l00)', 'ps + nm + att2 + un <= 1'],
                  timeout=600 if tier == 'quick' else 1700, witnesses=wit,
                  bound='language L_MINI (type N, self-association PQ(p,q)); pre-state from 7 bits (third asset, links 0-1, 1-2, self-link 0-0 alone or with other members in both fields, one association '
                        'holding two assets in one field, attacker with an entry point), built through the API; then every sequence of %d operation(s) from %s '
                        'with valid and invalid arguments (asset ids %s, duplicate names, removed / foreign objects)%s' % (
                            k, OPS, AIDS, '' if k == 1 else '; for 2 operations the pre-states are the 6 that have the third asset, the link 0-1 and the attacker'))]


META = {
    'bounds': 'universe of <= 4 assets of one type; 64 pre-states x histories of 1 (quick) / 2 (thorough) operations',
    'outside': ['more than 4 assets', 'histories longer than pre-state + 2 operations', 'attacker id reuse', 'entry points on assets outside the model'],
    'stubs': ['pjo MakeLiteral memoised; pjo class building untraced'],
    'assumptions': ['valid operation must return and take effect; invalid operation may raise or return but must leave observables unchanged (DESIGN 4a)',
                    'automatic ids/renamed names are taken from the real model and only required to be unique',
                    'all inputs are concrete once the picks are decided: the real Model code runs untraced on that path'],
    'requires': ['Model.add_asset', 'Model.remove_asset', 'Model.add_association', 'Model.remove_association',
                 'Model.remove_asset_from_association', 'Model.get_associated_assets_by_field_name', 'Model.add_attacker',
                 'Model.remove_attacker', 'AttackerAttachment.add_entry_point', 'AttackerAttachment.remove_entry_point',
                 'Model._validate_association'],
}
get_query = getter(queries)
