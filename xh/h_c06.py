"""C06 - a model can only hold what the language allows."""
from __future__ import annotations

import copy
import math

from xh.spec import Query, B, I, F, getter
from xh.g import idx
from xh.rt import notrace, pick, reclimit
from xh import langs, mb

PROP = 'C06'
KINDS = ['L', 'L1', 'L2', 'Dup_G1_O', 'Dup_G2_O']
DEFN = ['dP', 'dA', 'dG']
TTCV = [langs.ENABLED, langs.DISABLED, None, langs.EXPO]


def _assoc_decl(spec, kind):
    for a in spec['associations']:
        full = a['name'] if kind in ('L', 'L1', 'L2') else '%s_%s_%s' % (a['name'], a['leftAsset'], a['rightAsset'])
        if full == kind:
            return a
    raise KeyError(kind)


def body_defense(cube, **kw):
    """Symbolic real d flows into pjo's range validation of the generated class."""
    d = kw['d']
    if d != d:          # NaN is neither inside nor outside [0,1]: outside the claim
        return ''
    dn = cube['defense']
    with notrace():
        from xh import stubs
        stubs.install_pjo_range_message_stub()
        lg, lcf = langs.build_lang(langs.L_INH())
        a = lcf.ns.G1(name='g')
        before = float(getattr(a, dn))
    ok = True
    try:
        # attribute-assignment statements, not builtins.setattr: CrossHair's patched setattr suspends tracing
        if dn == 'dP':
            a.dP = d
        elif dn == 'dA':
            a.dA = d
        else:
            a.dG = d
    except Exception as e:
        if type(e).__name__ == 'NotDeterministic':
            raise
        ok = False
    inside = 0.0 <= d <= 1.0
    if ok and not inside:
        return 'defense %s accepted a value outside [0,1]' % dn
    if not ok and inside:
        return 'defense %s rejected a value inside [0,1]' % dn
    now = a.dP if dn == 'dP' else (a.dA if dn == 'dA' else a.dG)   # a pjo literal; compared, never converted
    if ok and not (now == d):
        return 'defense %s does not store the value that was set' % dn
    if not ok and not (now == before):
        return 'defense %s was changed by a rejected assignment' % dn
    return ''


def body_classes(cube, **kw):
    from maltoolbox.model import Model
    tp = pick(kw['tp'], TTCV)
    ta = pick(kw['ta'], TTCV)
    cs = (idx(kw['c0'], 3), 0, idx(kw['c2'], 4), 0)
    go = idx(kw['go'], 3) if 'go' in kw else 0
    with notrace(), reclimit():
        spec = langs.L_INH(cs)
        for a in spec['assets']:
            for s in a['attackSteps']:
                if s['name'] == 'dP' and a['name'] == 'P':
                    s['ttc'] = copy.deepcopy(tp)
                if s['name'] == 'dA':
                    s['ttc'] = copy.deepcopy(ta)
                if s['name'] == 'dP' and a['name'] == 'G1' and go > 0:
                    # G1 redefines the inherited defense with '->' and another status
                    s['reaches']['overrides'] = True
                    s['ttc'] = copy.deepcopy(langs.DISABLED if go == 1 else None)
        if cs[2] == 3 and cs[0] == 0:
            return ''
        lg, lcf = langs.build_lang(spec)
        ns = lcf.ns
        m = Model('m', lcf)
        exposed = [x for x in dir(ns) if not x.startswith('_')]
        for a in spec['assets']:
            t = a['name']
            if t not in exposed:
                return 'asset type %s is not exposed by the generated classes' % t
            obj = getattr(ns, t)(name='x' + t)
            if str(obj.type) != t:
                return 'instance of %s reports type %s' % (t, obj.type)
            m.add_asset(obj)
            fold = langs.ref_fold(spec, t)
            want = {}
            for n, d in fold.items():
                if d['type'] == 'defense':
                    want[n] = 1.0 if (d['ttc'] and d['ttc'].get('name') == 'Enabled') else 0.0
            got = m.get_asset_defenses(obj, include_defaults=True)
            if got != want:
                return 'type %s exposes defenses %r, language says %r (1 iff declared Enabled)' % (t, got, want)
            for n in want:
                if float(getattr(obj, n)) != want[n]:
                    return 'default of %s.%s is %r, expected %r' % (t, n, float(getattr(obj, n)), want[n])
        names = [x['name'] for x in spec['associations']]
        for x in spec['associations'] + list(reversed(spec['associations'])):     # both lookup orders (memoisation)
            full = lcf.get_association_by_signature(x['name'], x['leftAsset'], x['rightAsset'])
            flip = lcf.get_association_by_signature(x['name'], x['rightAsset'], x['leftAsset'])
            wantname = x['name'] if names.count(x['name']) == 1 else '%s_%s_%s' % (x['name'], x['leftAsset'], x['rightAsset'])
            # the flipped query resolves to this association unless another association of that name is declared the other way round
            other = next((y for y in spec['associations'] if y['name'] == x['name'] and y['leftAsset'] == x['rightAsset']
                          and y['rightAsset'] == x['leftAsset'] and y is not x), None)
            wantflip = wantname if other is None else '%s_%s_%s' % (other['name'], other['leftAsset'], other['rightAsset'])
            if full != wantname or flip != wantflip:
                return 'association %s(%s,%s) resolves to class %r / %r, expected %r' % (
                    x['name'], x['leftAsset'], x['rightAsset'], full, flip, wantname)
            if full not in exposed:
                return 'association class %s is not exposed' % full
            inst = getattr(ns, full)()
            setattr(inst, x['leftField'], [])
            setattr(inst, x['rightField'], [])
            if sorted(m.get_association_field_names(inst)) != sorted([x['leftField'], x['rightField']]):
                return 'association %s has fields %s, expected %s' % (full, list(m.get_association_field_names(inst)), [x['leftField'], x['rightField']])
        for extra in exposed:
            if extra in ('LanguageAsset', 'LanguageAssociation', 'LanguageObject'):
                continue
            obj = getattr(ns, extra)
            known = [a['name'] for a in spec['assets']] + names + \
                    ['%s_%s_%s' % (x['name'], x['leftAsset'], x['rightAsset']) for x in spec['associations']]
            props = set(DEFN) | {'id', 'type'} | set(sum([[x['leftField'], x['rightField']] for x in spec['associations']], []))
            if extra not in known and extra not in props:
                return 'generated classes expose %s which the language does not declare' % extra
    return ''


def body_assoc(cube, **kw):
    from maltoolbox.model import Model
    kind = pick(kw['k'], KINDS)
    l0, l1 = idx(kw['l0'], 4), idx(kw['l1'], 3)
    r0, r1, r2 = idx(kw['r0'], 3), idx(kw['r1'], 3), idx(kw['r2'], 2)
    dup = bool(kw['dup'])
    cross = bool(kw['cross']) if 'cross' in kw else False
    with notrace(), reclimit():
        spec = langs.L_INH()
        lg, lcf = langs.build_lang(spec)
        types = ['G1', 'G2', 'Am', 'O', 'O', 'O']
        m, pool = mb.build_model(lcf, types, names=['g1', 'g2', 'a', 'o', 'o2', 'o3'])
        rel = langs.rel_for(spec, types)
        decl = _assoc_decl(spec, kind)
        left = [l0]
        if l1 == 1:
            left.append(l0)
        elif l1 == 2:
            left.append(2)
        right = [[3, 0, 3][r0]]
        if r0 == 2:
            right = []                      # empty opposite field
        elif r1 == 1:
            right.append(right[0])
        elif r1 == 2:
            right.append(4)
        if r2 == 1 and r0 != 2:
            right.append(5)

        def conforms(members, tname):
            return all(rel.is_sub(types[i], tname) for i in members)
        valid = (conforms(left, decl['leftAsset']) and conforms(right, decl['rightAsset'])
                 and (decl['leftMultiplicity']['max'] is None or len(left) <= decl['leftMultiplicity']['max'])
                 and (decl['rightMultiplicity']['max'] is None or len(right) <= decl['rightMultiplicity']['max'])
                 and len(set(left)) == len(left) and len(set(right)) == len(right))

        def attempt():
            a = getattr(lcf.ns, kind)()
            setattr(a, decl['leftField'], [pool[i] for i in left])
            setattr(a, decl['rightField'], [pool[i] for i in right])
            m.add_association(a)
            return a
        first_ok = False
        cross_link = False
        if cross and not dup and len(left) == 2 and len(set(left)) == 2 and valid:
            # the last left member is already linked to the first right member by a single-pair association of the same kind
            try:
                a0 = getattr(lcf.ns, kind)()
                setattr(a0, decl['leftField'], [pool[left[-1]]])
                setattr(a0, decl['rightField'], [pool[right[0]]])
                m.add_association(a0)
                cross_link = True
            except Exception:
                cross_link = False
        if dup:
            try:
                attempt()
                first_ok = True
            except Exception:
                first_ok = False
            if first_ok != valid:
                return 'association %s left=%s right=%s was %s, expected %s' % (
                    kind, [types[i] for i in left], [types[i] for i in right], 'accepted' if first_ok else 'rejected',
                    'acceptance' if valid else 'rejection')
        before = m._to_dict()
        n_before = len(m.associations)
        ok = True
        try:
            attempt()
        except Exception as e:
            ok = False
        want_ok = valid and not (dup and first_ok and left and right) and not cross_link      # no pair, no duplicate link
        desc = '%s left=%s right=%s%s' % (kind, [str(pool[i].name) for i in left], [str(pool[i].name) for i in right],
                                          ' (already present)' if dup and first_ok and left and right else (' (one cross pair already linked)' if cross_link else ''))
        if ok and not want_ok:
            return 'association %s was accepted although the language/model forbids it' % desc
        if not ok and want_ok:
            return 'association %s was rejected although it is allowed' % desc
        after = m._to_dict()
        if not ok and after != before:
            return 'rejected association %s changed the model' % desc
        if ok:
            if len(m.associations) != n_before + 1:
                return 'accepted association %s is not listed once' % desc
            e = after['associations'][-1]
            if list(e.keys())[0] != kind or sorted(e[kind][decl['leftField']]) != sorted(int(pool[i].id) for i in left) or \
                    sorted(e[kind][decl['rightField']]) != sorted(int(pool[i].id) for i in right):
                return 'accepted association %s serialises as %r' % (desc, e)
    return ''


def queries(tier):
    qs = []
    for dn in DEFN:
        qs.append(Query(name='defense_' + dn, body=body_defense, params=[F('d')], cubes=[{'defense': dn}], timeout=300,
                        witnesses=[({'defense': dn}, {'d': 0.5}), ({'defense': dn}, {'d': 1.5}), ({'defense': dn}, {'d': -0.25})],
                        bound='symbolic float d (every finite real, +-inf; NaN skipped) assigned to defense %s of a G1 asset: '
                              'accepted iff 0 <= d <= 1, stored value equals d, a rejected assignment leaves the value unchanged' % dn))
    ps = [I('tp', 0, 3), I('ta', 0, 3), I('c0', 0, 2), I('c2', 0, 3), I('go', 0, 2)]
    qs.append(Query(name='classes', body=body_classes, params=ps, split=['tp', 'ta'], timeout=500,
                    witnesses=[({}, {'tp': 0, 'ta': 1, 'c0': 2, 'c2': 3, 'go': 1}), ({}, {'tp': 2, 'ta': 3, 'c0': 1, 'c2': 0, 'go': 0})],
                    bound='L_INH variants: TTC of defense dP (on abstract P) and dA over [Enabled, Disabled, none, Exponential], step s declared at P/G1 in '
                          '3 x 4 ways, G1 extending or overriding (->) the inherited defense dP with another status; every asset type, its inherited defenses and defaults, every association class incl. both Dup sub-entries'))
    ps = [I('k', 0, 4), I('l0', 0, 3), I('l1', 0, 2), I('r0', 0, 2), I('r1', 0, 2), I('r2', 0, 1), B('dup'), B('cross')]
    qs.append(Query(name='assoc', body=body_assoc, params=ps, split=['k', 'dup', 'l0'], timeout=500, pre=['not (dup and cross)', 'not cross or l1 == 2'],
                    witnesses=[({}, {'k': 0, 'l0': 0, 'l1': 2, 'r0': 0, 'r1': 2, 'r2': 1, 'dup': True}),
                               ({}, {'k': 1, 'l0': 0, 'l1': 2, 'r0': 0, 'r1': 0, 'r2': 0, 'dup': False}),
                               ({}, {'k': 3, 'l0': 1, 'l1': 0, 'r0': 0, 'r1': 0, 'r2': 0, 'dup': False})],
                    bound='associations %s of L_INH (multiplicities *, 0..1/1, 1..*/0..2, duplicate names); left field: first member from [G1,G2,A,O], '
                          'second none/same/A; right field: first member O or G1 or the field left empty, second none/same/O, third none/O; with and without the same link '
                          'already present, or one cross pair (last left member, first right member) already linked' % KINDS))
    return qs


META = {
    'bounds': 'language L_INH and variants; one association attempt per path on a 6-asset model; defense values over all floats (symbolic)',
    'outside': ['NaN defense values (neither inside nor outside [0,1])', 'minimum multiplicities (the property only names the maximum)',
                'languages other than the L_INH family'],
    'stubs': ['pjo MakeLiteral memoised; pjo class building untraced', 'pjo minimum/maximum validators: error text no longer formats the value (comparisons verbatim)'],
    'assumptions': ['python_jsonschema_objects validation is executed (traced for the defense query), not specified'],
    'requires': ['LanguageClassesFactory._generate_assets', 'LanguageClassesFactory._generate_associations',
                 'LanguageClassesFactory.get_association_by_signature', 'Model._validate_association', 'Model.add_association',
                 'Model.association_exists_between_assets'],
}
get_query = getter(queries)
