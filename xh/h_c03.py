"""C03 - step inheritance resolves override/extend correctly and the lookup is pure."""
from __future__ import annotations

import copy

from xh.spec import Query, B, I, getter
from xh.g import idx
from xh.rt import notrace, pick, reclimit
from xh.spec import B
from xh import langs, mb

PROP = 'C03'
LV = ['P', 'Am', 'G1', 'G2']
HOPS = ['lookup P', 'lookup A', 'lookup G1', 'lookup G2', 'lang_graph.regenerate_graph()', 'AttackGraph(lang_graph, model)']


def _norm(decl):
    if decl is None:
        return None
    r = decl['reaches']
    q = decl.get('requires')
    return (decl['type'], decl['ttc'], list(decl['tags']), None if not r else list(r['stepExpressions']),
            None if not q else list(q['stepExpressions']))


def _check_all(lg, spec0, where):
    for t in [a['name'] for a in spec0['assets']]:
        want = langs.ref_fold(spec0, t)
        got = lg._get_attacks_for_asset_type(t)
        if sorted(got) != sorted(want):
            return '%s: type %s exposes steps %s, fold gives %s' % (where, t, sorted(got), sorted(want))
        for n in want:
            if _norm(got[n]) != _norm(want[n]):
                return '%s: step %s of type %s resolves to reaches %s, root-down fold gives %s' % (
                    where, n, t, [langs.show(e) for e in (got[n]['reaches'] or {}).get('stepExpressions', [])] if got[n]['reaches'] else None,
                    [langs.show(e) for e in (want[n]['reaches'] or {}).get('stepExpressions', [])] if want[n]['reaches'] else None)
        a = lg.get_asset_by_name(t)
        if a is None:
            return '%s: asset %s missing from the language graph' % (where, t)
        names = sorted(s.name for s in a.attack_steps)
        if names != sorted(want):
            return '%s: LanguageGraphAsset %s lists steps %s, fold gives %s' % (where, t, names, sorted(want))
        for s in a.attack_steps:
            if _norm(s.attributes) != _norm(want[s.name]):
                return '%s: LanguageGraphAsset %s step %s attributes differ from the fold' % (where, t, s.name)
    if lg._lang_spec != spec0:
        return '%s: the loaded language specification was modified' % where
    return ''


def _run(cs, hist, rev=False):
    from maltoolbox.language import LanguageGraph, LanguageClassesFactory
    from maltoolbox.attackgraph import AttackGraph
    from xh import stubs
    stubs.install()
    spec0 = langs.L_INH(cs)
    if rev:
        spec0['assets'].reverse()          # sub-assets are declared before their super assets
    work = copy.deepcopy(spec0)
    lg = LanguageGraph(work)
    r = _check_all(lg, spec0, 'after construction')
    if r:
        return r
    model = None
    for si, h in enumerate(hist):
        if h < 4:
            want = langs.ref_fold(spec0, LV[h])
            got = lg._get_attacks_for_asset_type(LV[h])
            got2 = lg._get_attacks_for_asset_type(LV[h])
            if sorted(got) != sorted(got2) or any(_norm(got[n]) != _norm(got2[n]) for n in got):
                return 'step %d: two consecutive lookups of %s disagree' % (si, LV[h])
            if sorted(got) != sorted(want) or any(_norm(got[n]) != _norm(want[n]) for n in want):
                return 'step %d: lookup of %s differs from the fold' % (si, LV[h])
        elif h == 4:
            lg.regenerate_graph()
        else:
            if model is None:
                lcf = LanguageClassesFactory(lg)
                model, assets = mb.build_model(lcf, ['G1', 'G2', 'O', 'Am', 'G3'])
                mb.add_link(model, lcf, 'L', 'ps', [assets[0], assets[1], assets[3], assets[4]], 'os', [assets[2]])
            g = AttackGraph(lg, model)
            for ai, t in enumerate(['G1', 'G2']):
                want = langs.ref_fold(spec0, t)
                nd = g.get_node_by_full_name('a%d:s' % ai)
                if ('s' in want) != (nd is not None):
                    return 'step %d: attack graph %s node a%d:s although the fold says type %s %s it' % (
                        si, 'has' if nd else 'lacks', ai, t, 'exposes' if 's' in want else 'does not expose')
                if nd is not None:
                    exprs = want['s']['reaches']['stepExpressions'] if want['s']['reaches'] else []
                    wantc = sorted('a%d:%s' % (ai, e['name']) for e in exprs)
                    gotc = sorted(set(c.full_name for c in nd.children))
                    if gotc != sorted(set(wantc)):
                        return 'step %d: children of a%d:s are %s, fold gives %s' % (si, ai, gotc, wantc)
        r = _check_all(lg, spec0, 'after step %d (%s)' % (si, HOPS[h]))
        if r:
            return r
    return ''


def wellformed_cs(cs):
    # '+>' needs an inherited definition (malc rejects it otherwise)
    if cs[0] == 3:
        return False
    if cs[1] == 3 and cs[0] == 0:
        return False
    for g in (2, 3):
        if cs[g] == 3 and cs[0] == 0 and cs[1] == 0:
            return False
    return True


def body_fold(cube, **kw):
    cs = tuple(idx(kw['c%d' % i], 4) for i in range(4))
    if not wellformed_cs(cs):
        return ''
    hist = [idx(kw['h%d' % i], len(HOPS)) for i in range(cube['k'])]
    rev = bool(kw['rev']) if 'rev' in kw else False
    with notrace(), reclimit():
        return _run(cs, hist, rev)


def body_deep(cube, **kw):
    """A chain of `depth` levels: level 0 declares `s -> t0`, every level i adds `+> ti` (or nothing / '->' per pick)."""
    from maltoolbox.language import LanguageGraph
    L = langs
    depth = cube['depth']
    mode = idx(kw['mode'], 3)
    cut = idx(kw['cut'], depth)
    with notrace(), reclimit(3000):
        assets = []
        for i in range(depth):
            steps = [L.step('t%d' % i, 'or')]
            if i == 0:
                steps.append(L.step('s', 'or', reaches=[L.astep('t0')]))
            elif mode == 0 or (mode == 1 and i != cut) or (mode == 2 and i % 2 == 0):
                steps.append(L.step('s', 'or', reaches=[L.astep('t%d' % i)], overrides=(mode == 1 and i == cut)))
            if mode == 1 and i == cut and i > 0:
                steps.append(L.step('s', 'or', reaches=[L.astep('t%d' % i)], overrides=True))
            assets.append(L.asset('T%d' % i, sup=('T%d' % (i - 1) if i else None), steps=steps))
        spec0 = L.spec(assets, [L.assoc('Z', 'T0', 'za', L.MANY, 'T0', 'zb', L.MANY)], lang_id='verif.deep')
        lg = LanguageGraph(copy.deepcopy(spec0))
        for t in ('T%d' % (depth - 1), 'T%d' % (depth // 2), 'T0'):
            want = langs.ref_fold(spec0, t)
            got = lg._get_attacks_for_asset_type(t)
            if sorted(got) != sorted(want):
                return 'type %s (depth %d) exposes %d steps, fold gives %d' % (t, depth, len(got), len(want))
            if _norm(got['s']) != _norm(want['s']):
                return 'step s of %s resolves to %s, fold gives %s' % (
                    t, [e['name'] for e in got['s']['reaches']['stepExpressions']], [e['name'] for e in want['s']['reaches']['stepExpressions']])
        if lg._lang_spec != spec0:
            return 'specification modified'
    return ''


def queries(tier):
    k = 2 if tier == 'quick' else 3
    ps = [I('c%d' % i, 0, 3) for i in range(4)] + [I('h%d' % i, 0, len(HOPS) - 1) for i in range(k)] + [B('rev')]
    wit = [({'k': k}, dict({'c0': 1, 'c1': 3, 'c2': 3, 'c3': 3}, rev=False, **{'h%d' % i: (5, 2, 4)[i] for i in range(k)})),
           ({'k': k}, dict({'c0': 2, 'c1': 3, 'c2': 0, 'c3': 2}, rev=True, **{'h%d' % i: (5, 4, 0)[i] for i in range(k)}))]
    deep = Query(name='deep', body=body_deep, params=[I('mode', 0, 2), I('cut', 0, 13)], cubes=[{'depth': 14}], timeout=300,
                 witnesses=[({'depth': 14}, {'mode': 0, 'cut': 3})],
                 bound='inheritance chain of 14 levels: s extended (+>) at every level / overridden (->) at one level (every position) / extended at every second level')
    return [deep, Query(name='fold', body=body_fold, params=ps, cubes=[{'k': k}], split=['c0', 'c1'] if k == 2 else ['c0', 'c1', 'h0'],
                  pre=['not rev or (h0 != 5 and h1 != 5)'] if k == 2 else ['not rev or (h0 != 5 and h1 != 5 and h2 != 5)'],
                  timeout=500 if tier == 'quick' else 1700, witnesses=wit,
                  bound='family F_INH: P <- A <- {G1, G2}; every assignment of {absent, no reaches, ->, +>} to step s at each of the 4 levels '
                        '(256 languages, ill-formed +> without inherited definition skipped) x every history of %d operations from %s; '
                        'after every operation all 5 types are compared with the root-down fold and _lang_spec with its load-time snapshot' % (k, HOPS))]


META = {
    'bounds': 'inheritance depth 3 (P <- A <- G1/G2) with one redefined step per level; histories of 2 (quick) / 3 (thorough) operations',
    'outside': ['chains deeper than 3', 'several redefined steps interacting', 'histories longer than 3'],
    'stubs': ['pjo MakeLiteral memoised; pjo class building untraced'],
    'assumptions': ["'+>' at a level without an inherited definition is ill-formed (malc rejects it) and skipped",
                    'all inputs are concrete once the picks are decided: the real resolver runs untraced'],
    'requires': ['LanguageGraph._get_attacks_for_asset_type', 'LanguageGraph.regenerate_graph', 'AttackGraph._generate_graph'],
}
get_query = getter(queries)
