"""C11 - attackers and nodes always agree on what is compromised."""
from __future__ import annotations

from xh.spec import Query, B, I, getter
from xh.g import idx, new_graph, add_nodes, count_identity
from xh.rt import notrace

PROP = 'C11'
NA, NN = 2, 3
OPS = ['a.compromise(n)', 'n.compromise(a)', 'a.undo_compromise(n)', 'n.undo_compromise(a)',
       'graph.remove_attacker(a)', 'graph.add_attacker(new)']


def _check(atts, nodes, shadow):
    # oracle bookkeeping over concrete objects only: run untraced
    with notrace():
        return _check0(atts, nodes, shadow)


def _check0(atts, nodes, shadow):
    for ai, a in enumerate(atts):
        for ni, n in enumerate(nodes):
            want = 1 if shadow[ai][ni] else 0
            if count_identity(a.reached_attack_steps, n) != want:
                return 'attacker %d lists node %d %d times, expected %d' % (
                    ai, ni, count_identity(a.reached_attack_steps, n), want)
            if count_identity(n.compromised_by, a) != want:
                return 'node %d lists attacker %d %d times, expected %d' % (
                    ni, ai, count_identity(n.compromised_by, a), want)
            if bool(n.is_compromised_by(a)) != bool(want):
                return 'is_compromised_by(node %d, attacker %d) != %s' % (ni, ai, bool(want))
        if a.entry_points:
            return 'entry points of attacker %d changed' % ai
    return ''


def body_hist(cube, **kw):
    from maltoolbox.attackgraph import Attacker
    k = cube['k']
    with notrace():  # concrete set-up
        g = new_graph()
        nodes = add_nodes(g, ['or', 'and', 'or'])
        atts = []
        for ai in range(NA):
            a = Attacker(name='att')       # same name: only identity tells them apart
            g.add_attacker(a)
            atts.append(a)
    present = [True] * NA
    shadow = [[False] * NN for _ in range(NA)]
    for ai in range(NA):
        for ni in range(NN):
            if kw['r%d%d' % (ai, ni)]:
                atts[ai].compromise(nodes[ni])
                shadow[ai][ni] = True
    r = _check(atts, nodes, shadow)
    if r:
        return 'pre-state: ' + r
    for s in range(k):
        o = cube['o0'] if (s == 0 and 'o0' in cube) else idx(kw['o%d' % s], len(OPS))
        ni = idx(kw['n%d' % s], NN) if o < 4 else 0      # arguments are read lazily
        ai = idx(kw['a%d' % s], NA) if o < 5 else 0
        a, n = atts[ai], nodes[ni]
        if o == 0:
            a.compromise(n); shadow[ai][ni] = True
        elif o == 1:
            n.compromise(a); shadow[ai][ni] = True
        elif o == 2:
            a.undo_compromise(n); shadow[ai][ni] = False
        elif o == 3:
            n.undo_compromise(a); shadow[ai][ni] = False
        elif o == 4:
            if present[ai]:
                g.remove_attacker(a)
                present[ai] = False
                shadow[ai] = [False] * NN
                if g.get_attacker_by_id(a.id) is a:
                    return 'step %d: removed attacker still found by id' % s
                for x in g.attackers:
                    if x is a:
                        return 'step %d: removed attacker still listed' % s
        else:
            x = Attacker(name='extra%d' % s)
            g.add_attacker(x)
            if x.reached_attack_steps or x.entry_points:
                return 'step %d: fresh attacker not empty' % s
        r = _check(atts, nodes, shadow)
        if r:
            return 'after step %d (%s, node %d, attacker %d): %s' % (s, OPS[o], ni, ai, r)
    return ''


EPS = [[], [(0, ['a'])], [(0, ['a', 'nosuchstep']), (1, ['c'])], [(1, ['b', 'c']), (0, ['d'])], [(0, ['nosuchstep'])],
       [(0, ['nosuchstep', 'a', 'c']), (1, ['nosuchstep', 'b'])],
       [(0, ['a', 'a']), (0, ['c', 'a'])]]      # the same (asset, step) named twice, set directly on the attachment


def body_attach(cube, **kw):
    """attach_attackers: one graph attacker per model attacker; entry points = reached = existing nodes named."""
    from maltoolbox.attackgraph import AttackGraph
    from maltoolbox.model import AttackerAttachment
    from xh import langs, mb
    from xh.h_c09 import L_MINI
    from xh.rt import reclimit
    e0, e1 = idx(kw['e0'], len(EPS)), idx(kw['e1'], len(EPS) + 1)
    link, twice = bool(kw['l']), bool(kw['tw'])
    second = bool(kw['second']) if 'second' in kw else False
    pre = bool(kw['pre']) if 'pre' in kw else False
    ana = bool(kw['ana']) if 'ana' in kw else False
    sn = bool(kw['sn']) if 'sn' in kw else False      # both model attackers carry the same name
    hn = bool(kw['hn']) if 'hn' in kw else False      # the attacker added by hand carries the name of a model attacker
    NM = ['att0', 'att0' if sn else 'att1']
    with notrace(), reclimit():
        lg, lcf = langs.build_lang(L_MINI())
        if pre:
            # model attackers are created before the assets, so that they hold the ids 0 and 1
            from maltoolbox.model import Model
            m = Model('m', lcf)
            early = [AttackerAttachment(name=NM[0]), AttackerAttachment(name=NM[1])]
            A = []
        else:
            m, A = mb.build_model(lcf, ['N', 'N'], names=['x', 'y:1'])
            early = None
        if pre:
            kept = []
            for k_, e_ in enumerate([e0, e1]):
                if e_ < len(EPS):
                    m.add_attacker(early[k_])
                    kept.append(early[k_])
            for nm_ in ('x', 'y:1'):
                a_ = lcf.ns.N(name=nm_)
                m.add_asset(a_)
                A.append(a_)
        if ana:
            A[0].d = 1.0            # enabled defense: step a of asset x is not viable
        if link:
            mb.add_link(m, lcf, 'PQ', 'p', [A[0]], 'q', [A[1]])
        want = []
        for k, e in enumerate([e0, e1]):
            if e >= len(EPS):
                continue
            if pre:
                t = early[k]
            else:
                t = AttackerAttachment(name=NM[k])
                m.add_attacker(t)
            if e == len(EPS) - 1:
                t.entry_points = [(A[ai], list(steps)) for (ai, steps) in EPS[e]]
            else:
                for (ai, steps) in EPS[e]:
                    for st in steps:
                        t.add_entry_point(A[ai], st)
            want.append((NM[k], sorted(set('%s:%s' % (A[ai].name, st) for (ai, steps) in EPS[e] for st in steps if st != 'nosuchstep'))))
        g = AttackGraph(lg, m)
        if pre:
            from maltoolbox.attackgraph import Attacker as _A
            hand = _A(name='att0' if hn else 'by hand')
            g.add_attacker(hand)      # takes graph attacker id 0
        if ana:
            from maltoolbox.attackgraph.analyzers.apriori import calculate_viability_and_necessity as _c
            _c(g)
        if second:
            other = AttackGraph(lg, m)          # a later graph generated from the same model must not interfere
        g.attach_attackers()
        if twice:
            g.regenerate_graph()
            g.attach_attackers()
        mine = [x for x in g.attackers if not (pre and x is hand)]
        if len(mine) != len(want):
            return 'attach_attackers created %d attackers for %d model attackers' % (len(mine), len(want))
        ids = []
        for ga, (nm, eps) in zip(mine, want):
            if ga.name != nm:
                return 'graph attacker named %r, model attacker %r' % (ga.name, nm)
            if ga.id in ids or g.get_attacker_by_id(ga.id) is not ga:
                return 'graph attacker ids not unique / lookup broken'
            ids.append(ga.id)
            for lst, what in ((ga.entry_points, 'entry points'), (ga.reached_attack_steps, 'reached steps')):
                got = sorted(n.full_name for n in lst)
                if got != eps:
                    return '%s of %s are %s, the model names the existing nodes %s' % (what, nm, got, eps)
                for n in lst:
                    if g.get_node_by_full_name(n.full_name) is not n:
                        return '%s of %s contain a node that is not in the graph' % (what, nm)
            for n in g.nodes:
                inlist = any(x is n for x in ga.reached_attack_steps)
                if inlist != any(x is ga for x in n.compromised_by):
                    return 'attacker %s and node %s disagree after attach_attackers' % (nm, n.full_name)
    return ''


def queries(tier):
    bits = [B('r%d%d' % (a, n)) for a in range(NA) for n in range(NN)]
    qs = []
    k = 1 if tier == 'quick' else 2
    params = list(bits)
    for s in range(k):
        if s > 0:
            params.append(I('o%d' % s, 0, len(OPS) - 1))
        params += [I('n%d' % s, 0, NN - 1), I('a%d' % s, 0, NA - 1)]
    qs.append(Query(
        name='hist', body=body_hist, params=params,
        cubes=[{'k': k, 'o0': o} for o in range(len(OPS))],
        timeout=240 if tier == 'quick' else 1500,
        witnesses=[({'k': k, 'o0': o},
                    dict({p.name: (True if p.typ == 'bool' else 0) for p in params})) for o in range(len(OPS))],
        bound='3 nodes x 2 attackers; every pre-state relation (6 bits, built through the API) '
              'followed by %d operation(s) from %s with every node/attacker argument' % (k, OPS),
        requires=['Attacker.compromise', 'Attacker.undo_compromise', 'AttackGraphNode.compromise',
                  'AttackGraphNode.undo_compromise', 'AttackGraph.remove_attacker', 'AttackGraph.add_attacker',
                  'AttackGraph.attach_attackers'],
    ))
    ps = [I('e0', 0, len(EPS) - 1), I('e1', 0, len(EPS)), B('l'), B('tw'), B('second'), B('pre'), B('ana'), B('sn'), B('hn')]
    qs.append(Query(name='attach', body=body_attach, params=ps, timeout=400, pre=['not (pre and tw)', 'pre or not hn'], split=['e0'],
                    witnesses=[({}, {'e0': 2, 'e1': 3, 'l': True, 'tw': True, 'second': True, 'pre': False, 'ana': True, 'sn': False, 'hn': False})],
                    bound='graph generated from a 2-asset L_MINI model with one or two model attackers whose entry points range over %s '
                          '(incl. a step that does not exist, several steps per asset, several assets); attach once or after a regeneration, with or without a second graph generated from the same model in between; model attackers with equal names; a hand-added graph attacker (optionally with a model attacker name) present beforehand' % EPS))
    return qs


META = {
    'bounds': '3 hand-built nodes, 2 attackers (+ attackers added by the history); all 64 compromise relations '
              'as pre-state; histories of 1 (quick) / 2 (thorough) further operations; attach_attackers on a '
              'generated graph (query attach).',
    'outside': ['more than 3 nodes / 2 attackers', 'histories longer than pre-state + 2 operations'],
    'stubs': [],
    'assumptions': ['pre-states are built through Attacker.compromise in a fixed order; list order inside '
                    'reached_attack_steps/compromised_by other than that order is reached only via the history ops'],
}
get_query = getter(queries)
