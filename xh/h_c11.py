"""C11 - attackers and nodes always agree on what is compromised."""
from __future__ import annotations

from xh.spec import Query, B, I, getter
from xh.g import idx, new_graph, add_nodes, count_identity
from xh.rt import notrace

PROP = 'C11'
NA, NN = 2, 3
OPS = ['a.compromise(n)', 'n.compromise(a)', 'a.undo_compromise(n)', 'n.undo_compromise(a)',
       'graph.remove_attacker(a)', 'graph.add_attacker(new)']


def _check(atts, nodes, shadow):
    # oracle bookkeeping over concrete objects only: run untraced
    with notrace():
        return _check0(atts, nodes, shadow)


def _check0(atts, nodes, shadow):
    for ai, a in enumerate(atts):
        for ni, n in enumerate(nodes):
            want = 1 if shadow[ai][ni] else 0
            if count_identity(a.reached_attack_steps, n) != want:
                return 'attacker %d lists node %d %d times, expected %d' % (
                    ai, ni, count_identity(a.reached_attack_steps, n), want)
            if count_identity(n.compromised_by, a) != want:
                return 'node %d lists attacker %d %d times, expected %d' % (
                    ni, ai, count_identity(n.compromised_by, a), want)
            if bool(n.is_compromised_by(a)) != bool(want):
                return 'is_compromised_by(node %d, attacker %d) != %s' % (ni, ai, bool(want))
        if a.entry_points:
            return 'entry points of attacker %d changed' % ai
    return ''


def body_hist(cube, **kw):
    from maltoolbox.attackgraph import Attacker
    k = cube['k']
    with notrace():  # concrete set-up
        g = new_graph()
        nodes = add_nodes(g, ['or', 'and', 'or'])
        atts = []
        for ai in range(NA):
            a = Attacker(name='att%d' % ai)
            g.add_attacker(a)
            atts.append(a)
    present = [True] * NA
    shadow = [[False] * NN for _ in range(NA)]
    for ai in range(NA):
        for ni in range(NN):
            if kw['r%d%d' % (ai, ni)]:
                atts[ai].compromise(nodes[ni])
                shadow[ai][ni] = True
    r = _check(atts, nodes, shadow)
    if r:
        return 'pre-state: ' + r
    for s in range(k):
        o = cube['o0'] if (s == 0 and 'o0' in cube) else idx(kw['o%d' % s], len(OPS))
        ni = idx(kw['n%d' % s], NN)
        ai = idx(kw['a%d' % s], NA)
        a, n = atts[ai], nodes[ni]
        if o == 0:
            a.compromise(n); shadow[ai][ni] = True
        elif o == 1:
            n.compromise(a); shadow[ai][ni] = True
        elif o == 2:
            a.undo_compromise(n); shadow[ai][ni] = False
        elif o == 3:
            n.undo_compromise(a); shadow[ai][ni] = False
        elif o == 4:
            if present[ai]:
                g.remove_attacker(a)
                present[ai] = False
                shadow[ai] = [False] * NN
                if g.get_attacker_by_id(a.id) is a:
                    return 'step %d: removed attacker still found by id' % s
                for x in g.attackers:
                    if x is a:
                        return 'step %d: removed attacker still listed' % s
        else:
            x = Attacker(name='extra%d' % s)
            g.add_attacker(x)
            if x.reached_attack_steps or x.entry_points:
                return 'step %d: fresh attacker not empty' % s
        r = _check(atts, nodes, shadow)
        if r:
            return 'after step %d (%s, node %d, attacker %d): %s' % (s, OPS[o], ni, ai, r)
    return ''


def queries(tier):
    bits = [B('r%d%d' % (a, n)) for a in range(NA) for n in range(NN)]
    qs = []
    k = 1 if tier == 'quick' else 2
    params = list(bits)
    for s in range(k):
        if s > 0:
            params.append(I('o%d' % s, 0, len(OPS) - 1))
        params += [I('n%d' % s, 0, NN - 1), I('a%d' % s, 0, NA - 1)]
    qs.append(Query(
        name='hist', body=body_hist, params=params,
        cubes=[{'k': k, 'o0': o} for o in range(len(OPS))],
        timeout=240 if tier == 'quick' else 1500,
        witnesses=[({'k': k, 'o0': o},
                    dict({p.name: (True if p.typ == 'bool' else 0) for p in params})) for o in range(len(OPS))],
        bound='3 nodes x 2 attackers; every pre-state relation (6 bits, built through the API) '
              'followed by %d operation(s) from %s with every node/attacker argument' % (k, OPS),
        requires=['Attacker.compromise', 'Attacker.undo_compromise', 'AttackGraphNode.compromise',
                  'AttackGraphNode.undo_compromise', 'AttackGraph.remove_attacker', 'AttackGraph.add_attacker'],
    ))
    return qs


META = {
    'bounds': '3 hand-built nodes, 2 attackers (+ attackers added by the history); all 64 compromise relations '
              'as pre-state; histories of 1 (quick) / 2 (thorough) further operations; attach_attackers on a '
              'generated graph (query attach).',
    'outside': ['more than 3 nodes / 2 attackers', 'histories longer than pre-state + 2 operations'],
    'stubs': [],
    'assumptions': ['pre-states are built through Attacker.compromise in a fixed order; list order inside '
                    'reached_attack_steps/compromised_by other than that order is reached only via the history ops'],
}
get_query = getter(queries)
