"""C12 - attack-surface queries follow their definition; incremental = recomputed."""
from __future__ import annotations

import itertools

from xh.spec import Query, B, I, F, getter
from xh.g import new_graph, add_nodes, link, has_identity, count_identity
from xh.rt import notrace, pick

PROP = 'C12'
LTYPES = ['or', 'and', 'defense', 'exist', 'notExist', 'bogus']
TAGS = [[], ['suppress'], ['x', 'suppress'], ['x']]


def snap(g):
    """Structure of the graph as concrete ids + the label objects themselves."""
    out = []
    for n in g.nodes:
        out.append((n.id, n.type, n.name, [c.id for c in n.children], [p.id for p in n.parents],
                    [a.id for a in n.compromised_by], n.is_viable, n.is_necessary, n.defense_status,
                    n.existence_status, list(n.tags)))
    att = [(a.id, [x.id for x in a.reached_attack_steps], [x.id for x in a.entry_points]) for a in g.attackers]
    return out, att, len(g.nodes), len(g.attackers)


def same_snap(s1, s2):
    if s1[2] != s2[2] or s1[3] != s2[3] or s1[1] != s2[1]:
        return False
    for a, b in zip(s1[0], s2[0]):
        for x, y in zip(a, b):
            if x is y:
                continue
            if type(x) in (list, tuple, str, int) and type(y) in (list, tuple, str, int):
                if x != y:
                    return False
                continue
            if x != y:   # symbolic label: decided by the solver
                return False
    return True


def body_local(cube, **kw):
    """One node with k parents; traversability depends only on node + parents."""
    from maltoolbox.attackgraph import Attacker
    from maltoolbox.attackgraph.query import is_node_traversable_by_attacker
    k = cube['k']
    t = pick(kw['t'], LTYPES)
    with notrace():
        g = new_graph()
        ptypes = [['or', 'defense', 'exist', 'and'][cube.get('pt', 0)]] + ['or'] * max(0, k - 1)
        nodes = add_nodes(g, [t] + ptypes[:k] + ['or', 'and'])
        x, parents, decoys = nodes[0], nodes[1:1 + k], nodes[1 + k:]
        for p in parents:
            link(p, x)
        for d in decoys:
            link(x, d)
        a = Attacker(name='a'); g.add_attacker(a)
        b = Attacker(name='b'); g.add_attacker(b)
    x.is_viable = kw['v']
    for i, p in enumerate(parents):
        p.is_necessary = kw['n%d' % i]
        p.is_viable = kw['pv%d' % i] if ('pv%d' % i) in kw else True
        if kw['ca%d' % i]:
            a.compromise(p)
        if ('cb%d' % i) in kw and kw['cb%d' % i]:
            b.compromise(p)
    if kw['cx']:
        a.compromise(x)
    before = snap(g)
    got = is_node_traversable_by_attacker(x, a)
    if t == 'or':
        want = bool(x.is_viable)
    elif t == 'and':
        want = bool(x.is_viable)
        for i, p in enumerate(parents):
            if kw['n%d' % i] and not kw['ca%d' % i]:
                want = False
    else:
        want = False
    if got is not True and got is not False:
        got = bool(got)
    if got != want:
        return 'is_node_traversable_by_attacker(%s node, k=%d parents) = %s, definition says %s' % (t, k, got, want)
    if not same_snap(before, snap(g)):
        return 'is_node_traversable_by_attacker changed the graph'
    return ''


def _trav(types, parents, via, nec, reached, i):
    if not via[i]:
        return False
    if types[i] == 'or':
        return True
    if types[i] == 'and':
        for p in parents[i]:
            if nec[p] and not reached[p]:
                return False
        return True
    return False


def body_global(cube, **kw):
    from maltoolbox.attackgraph import Attacker
    from maltoolbox.attackgraph.query import (get_attack_surface, update_attack_surface_add_nodes,
                                              is_node_traversable_by_attacker)
    n = cube['n']
    types = cube['types']
    with notrace():
        g = new_graph()
        nodes = add_nodes(g, types)
        a = Attacker(name='a'); g.add_attacker(a)
        b = Attacker(name='b'); g.add_attacker(b)
    via = [kw['v%d' % i] for i in range(n)]
    nec = [kw['c%d' % i] for i in range(n)]
    for i in range(n):
        nodes[i].is_viable = via[i]
        nodes[i].is_necessary = nec[i]
    parents = [[] for _ in range(n)]
    children = [[] for _ in range(n)]
    dbl = bool(cube.get('dbl', False))
    for i in range(n):
        for j in range(n):
            if kw['e%d%d' % (i, j)]:
                link(nodes[i], nodes[j])
                parents[j].append(i)
                children[i].append(j)
                if dbl:
                    link(nodes[i], nodes[j])     # the same child listed twice by one step
    reached = [False] * n
    for i in range(n):
        if kw['ra%d' % i]:
            a.compromise(nodes[i]); reached[i] = True
    for i in cube.get('rb', []):
        b.compromise(nodes[i])
    if cube.get('ep'):
        a.entry_points = [nodes[n - 1], nodes[0]]     # entry points are not necessarily reached (e.g. after an undo)
    before = snap(g)
    surf = get_attack_surface(a)
    if not same_snap(before, snap(g)):
        return 'get_attack_surface changed the graph'
    want = [False] * n
    for r in range(n):
        if reached[r]:
            for c in children[r]:
                if _trav(types, parents, via, nec, reached, c):
                    want[c] = True
    for i in range(n):
        with notrace():
            cnt = count_identity(surf, nodes[i])
        if cnt > 1:
            return 'node %d appears %d times in the attack surface' % (i, cnt)
        if (cnt == 1) != bool(want[i]):
            return 'attack surface %s node %d, definition says %s' % (
                'contains' if cnt else 'lacks', i, 'it belongs' if want[i] else 'it does not belong')
    with notrace():
        for s in surf:
            if not has_identity(nodes, s):
                return 'attack surface contains a foreign object'
    # incremental update = recomputation
    new = []
    for i in range(n):
        if ('nw%d' % i) in kw and kw['nw%d' % i]:
            a.compromise(nodes[i]); reached[i] = True
            new.append(nodes[i])
    before = snap(g)
    inc = update_attack_surface_add_nodes(a, list(surf), new)
    if not same_snap(before, snap(g)):
        return 'update_attack_surface_add_nodes changed the graph'
    full = get_attack_surface(a)
    for i in range(n):
        with notrace():
            ci, cf = count_identity(inc, nodes[i]), count_identity(full, nodes[i])
        if ci > 1 or cf > 1:
            return 'node %d duplicated in incremental (%d) or recomputed (%d) surface' % (i, ci, cf)
        if ci != cf:
            return 'node %d: incremental surface %s it, recomputed surface %s it' % (
                i, 'has' if ci else 'lacks', 'has' if cf else 'lacks')
    return ''


def body_defense(cube, **kw):
    from maltoolbox.attackgraph.query import get_defense_surface, get_enabled_defenses
    n = 2
    types = cube['types']
    with notrace():
        g = new_graph()
        nodes = add_nodes(g, types)
    for i in range(n):
        nodes[i].tags = list(pick(kw['g%d' % i], TAGS))
        nodes[i].defense_status = kw['d%d' % i] if types[i] == 'defense' else None
    before = snap(g)
    ds = get_defense_surface(g)
    en = get_enabled_defenses(g)
    if not same_snap(before, snap(g)):
        return 'defense queries changed the graph'
    for i in range(n):
        isdef = types[i] == 'defense' and 'suppress' not in nodes[i].tags
        want_ds = isdef and kw['d%d' % i] != 1.0
        want_en = isdef and kw['d%d' % i] == 1.0
        with notrace():
            cd, ce = count_identity(ds, nodes[i]), count_identity(en, nodes[i])
        if cd > 1 or ce > 1:
            return 'node %d duplicated in a defense query result' % i
        if (cd == 1) != bool(want_ds):
            return 'defense surface %s node %d (type %s, tags %s)' % ('contains' if cd else 'lacks', i, types[i], nodes[i].tags)
        if (ce == 1) != bool(want_en):
            return 'enabled defenses %s node %d (type %s, tags %s)' % ('contain' if ce else 'lack', i, types[i], nodes[i].tags)
    return ''


def queries(tier):
    qs = []
    kmax = 3 if tier == 'quick' else 4
    for k in range(kmax + 1):
        ps = [I('t', 0, len(LTYPES) - 1), B('v'), B('cx')]
        for i in range(k):
            ps += [B('n%d' % i), B('ca%d' % i)] + ([B('cb%d' % i)] if i == 0 else [])
        w = {p.name: (1 if p.typ == 'int' else True) for p in ps}
        qs.append(Query(name='local%d' % k, body=body_local, params=ps, cubes=[{'k': k, 'pt': pt} for pt in (range(4) if k else [0])], split=['t'],
                        timeout=600, witnesses=[({'k': k}, w)],
                        bound='one node of every type %s with symbolic viability, %d parents (the first of type or / defense / exist / and) each with symbolic '
                              'necessity and compromised-by bits for two attackers, two decoy children' % (LTYPES, k)))

    def glob(name, n, tvecs, maxe, rbs, timeout, split=(), nodbl=False, nnew=None):
        ebits = ['e%d%d' % (i, j) for i in range(n) for j in range(n)]
        ps = [B('v%d' % i) for i in range(n)] + [B('c%d' % i) for i in range(n)] + [B(e) for e in ebits] + \
             [B('ra%d' % i) for i in range(n)] + [B('nw%d' % i) for i in range(n if nnew is None else nnew)]
        w = {p.name: True for p in ps}
        w.update({e: False for e in ebits}); w.update({'e01': True, 'nw0': False, 'ra1': False})
        return Query(name=name, body=body_global, params=ps,
                     cubes=[{'n': n, 'types': list(ts), 'rb': rb, 'dbl': d, 'ep': d} for ts in tvecs for rb in rbs for d in ((False,) if nodbl else (False, True))],
                     pre=['%s <= %d' % (' + '.join(ebits), maxe)] if maxe is not None else [],
                     timeout=timeout, split=list(split),
                     witnesses=[({'n': n, 'types': list(tvecs[-1]), 'rb': rbs[-1], 'dbl': not nodbl, 'ep': not nodbl}, w)],
                     bound='%d nodes, type vectors %s, symbolic viability/necessity flags, every edge set%s incl. self-loops, single and doubled (parallel) edges, '
                           'every reached set of attacker a, second attacker reached %s, every set of newly compromised nodes'
                           % (n, [list(t) for t in tvecs], '' if maxe is None else ' with <= %d edges' % maxe, rbs))
    P = itertools.product
    if tier == 'quick':
        qs.append(glob('global2', 2, list(P(['or', 'and'], repeat=2)), None, [[0]], 600, split=['ra0', 'ra1']))
    else:
        qs.append(glob('global2', 2, list(P(['or', 'and', 'defense'], repeat=2)), None, [[], [0, 1]], 1500, split=['ra0', 'ra1']))
        qs.append(glob('global3', 3, [('or', 'and', 'and'), ('and', 'and', 'or')], 2, [[0, 1]], 1700, split=['ra0', 'ra1', 'ra2'], nodbl=True, nnew=1))
    for ts in P(['defense', 'or', 'exist'], repeat=2):
        if 'defense' not in ts:
            continue
        ps = [I('g0', 0, 3), I('g1', 0, 3)] + [F('d%d' % i, 0.0, 1.0) for i in range(2) if ts[i] == 'defense']
        w = {'g0': 0, 'g1': 1, 'd0': 1.0, 'd1': 0.5}
        qs.append(Query(name='defense_' + '_'.join(ts), body=body_defense, params=ps, cubes=[{'types': list(ts)}], timeout=600,
                        witnesses=[({'types': list(ts)}, {p.name: w[p.name] for p in ps})],
                        bound='2 nodes of types %s, tag picks %s, symbolic real defense status in [0,1]' % (list(ts), TAGS)))
    return qs


META = {
    'bounds': 'local: k<=3 (quick) / 4 (thorough) parents, all types incl. an unknown type; global: N=2 (quick: or/and; thorough: 4 types) '
              'and N=3 or/and with <=4 edges (thorough); defense surface on 2 nodes',
    'outside': ['global harness beyond 3 nodes', 'more than two attackers', 'tags other than the four picks'],
    'stubs': [],
    'assumptions': ['local harness covers traversability for graphs of any size on the assumption that the function reads only the node and its parents; '
                    'the global harness checks that assumption on whole graphs',
                    'the surface includes children the attacker already compromised (the property excludes nothing)'],
    'requires': ['is_node_traversable_by_attacker', 'get_attack_surface', 'update_attack_surface_add_nodes',
                 'get_defense_surface', 'get_enabled_defenses', 'is_available_defense', 'is_enabled_defense'],
}
get_query = getter(queries)
