"""Run one cube of one query under CrossHair (z3) and return a structured verdict.

Runs inside a worker process that has already called env.activate(scratch).
"""
from __future__ import annotations

import importlib
import os
import sys
import time
import traceback

_PATCHED = False
COUNTS = {'paths': 0, 'solver_checks': 0, 'solver_s': 0.0}


def _patch_crosshair():
    global _PATCHED
    if _PATCHED:
        return
    import crosshair.core as core
    import z3
    # 1. no short-circuiting of contract-carrying callees (patched `hash` would
    #    otherwise return a symbolic int inside third-party __hash__ -> TypeError)
    core.consider_shortcircuit = lambda *a, **k: None
    # 2. accounting
    orig_attempt = core.attempt_call

    def attempt_call(*a, **k):
        COUNTS['paths'] += 1
        return orig_attempt(*a, **k)
    core.attempt_call = attempt_call
    orig_check = z3.Solver.check

    def check(self, *a):
        t = time.perf_counter()
        try:
            return orig_check(self, *a)
        finally:
            COUNTS['solver_checks'] += 1
            COUNTS['solver_s'] += time.perf_counter() - t
    z3.Solver.check = check
    _PATCHED = True


def wrapper_source(prop_mod: str, qname: str, tier: str, cube_idx: int, params, pre, mode: str) -> str:
    sig = ', '.join('%s: %s' % (p.name, p.typ) for p in params)
    lines = []
    for p in params:
        if p.typ in ('int', 'float') and p.lo is not None:
            lines.append('pre: %r <= %s <= %r' % (p.lo, p.name, p.hi))
    for e in pre:
        lines.append('pre: ' + e)
    lines.append("post: _ == ''" if mode == 'main' else "post: _ != ''")
    doc = '\n'.join('    ' + ln for ln in lines)
    argd = ', '.join('%r: %s' % (p.name, p.name) for p in params)
    return (
        'from xh import rt\n'
        'import %s as H\n'
        'Q = H.get_query(%r, %r)\n'
        'CUBE = Q.cubes[%d]\n'
        'BODY = Q.body\n'
        'globals().update(CUBE.get("_fixed", {}))\n'
        '\n'
        'def q(%s) -> str:\n'
        '    """\n%s\n    """\n'
        '    return rt.run_body(BODY, CUBE, {%s})\n'
    ) % (prop_mod, qname, tier, cube_idx, sig, doc, argd)


def run_cube(task: dict) -> dict:
    """task: prop_mod, query, tier, cube_idx, mode ('main'|'twin'), extra_pre, scratch, timeout"""
    t0 = time.time()
    res = {'task': {k: task[k] for k in ('prop_mod', 'query', 'tier', 'cube_idx', 'mode')},
           'verdict': 'error', 'paths': 0, 'ok_paths': 0, 'solver_checks': 0, 'solver_s': 0.0,
           'cex': None, 'messages': []}
    try:
        _patch_crosshair()
        from crosshair.core_and_libs import analyze_function, run_checkables
        from crosshair.options import AnalysisOptionSet
        from crosshair.statespace import MessageType
        from xh import rt
        H = importlib.import_module(task['prop_mod'])
        q = H.get_query(task['query'], task['tier'])
        pre = list(q.pre) + list(task.get('extra_pre') or [])
        src = wrapper_source(task['prop_mod'], task['query'], task['tier'], task['cube_idx'],
                             q.params, pre, task['mode'])
        qdir = os.path.join(task['scratch'], 'q')
        os.makedirs(qdir, exist_ok=True)
        if qdir not in sys.path:
            sys.path.insert(0, qdir)
        modname = 'q_%s_%s_%d_%s_%d' % (task['prop_mod'].split('.')[-1], task['query'], task['cube_idx'],
                                        task['mode'], os.getpid())
        with open(os.path.join(qdir, modname + '.py'), 'w') as f:
            f.write(src)
        importlib.invalidate_caches()
        m = importlib.import_module(modname)
        for k in COUNTS:
            COUNTS[k] = 0
        for k in rt.STATS:
            rt.STATS[k] = 0
        del rt.CEX[:]
        timeout = float(task.get('timeout') or q.timeout)
        opts = AnalysisOptionSet(
            per_condition_timeout=timeout,
            per_path_timeout=float(q.path_timeout),
            report_all=True,
            max_uninteresting_iterations=10 ** 9,
        )
        checkables = analyze_function(m.q, opts)
        msgs = run_checkables(checkables)
        res['paths'] = COUNTS['paths']
        res['ok_paths'] = rt.STATS['ok_paths']
        res['solver_checks'] = COUNTS['solver_checks']
        res['solver_s'] = round(COUNTS['solver_s'], 3)
        states = [mm.state for mm in msgs]
        res['messages'] = [(mm.state.name, mm.message[:400]) for mm in msgs]
        if not msgs:
            res['verdict'] = 'error'
            res['messages'].append(('NO_MESSAGE', 'crosshair produced no verdict'))
        elif any(s in (MessageType.POST_FAIL, MessageType.EXEC_ERR, MessageType.POST_ERR)
                 for s in states):
            res['verdict'] = 'cex'
            if rt.CEX:
                args, text = rt.CEX[-1]
                res['cex'] = {'args': args, 'text': text}
            else:
                res['cex'] = {'args': None, 'text': '; '.join(mm.message[:300] for mm in msgs)}
        elif all(s == MessageType.CONFIRMED for s in states):
            res['verdict'] = 'confirmed'
        elif any(s == MessageType.PRE_UNSAT for s in states):
            res['verdict'] = 'vacuous'
        elif any(s in (MessageType.SYNTAX_ERR, MessageType.IMPORT_ERR) for s in states):
            res['verdict'] = 'error'
        else:
            res['verdict'] = 'inconclusive'
    except BaseException as e:  # noqa
        res['verdict'] = 'error'
        res['messages'].append(('DRIVER_EXC', ''.join(traceback.format_exception(type(e), e, e.__traceback__))[-1500:]))
    res['wall_s'] = round(time.time() - t0, 2)
    return res
