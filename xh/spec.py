"""Declarative description of a solver query (one CrossHair condition per cube)."""
from __future__ import annotations

from dataclasses import dataclass, field
from typing import Callable, Optional


@dataclass
class P:
    """A symbolic scalar parameter. int/float get an inclusive range as `pre:`."""
    name: str
    typ: str = 'bool'            # 'bool' | 'int' | 'float'
    lo: Optional[float] = None
    hi: Optional[float] = None


def B(name):
    return P(name, 'bool')


def I(name, lo, hi):
    return P(name, 'int', lo, hi)


def F(name, lo=None, hi=None):
    return P(name, 'float', lo, hi)


@dataclass
class Query:
    name: str
    body: Callable                      # body(cube, **args) -> '' | failure text
    params: list                        # list[P]
    cubes: list = field(default_factory=lambda: [{}])   # split-variable valuations
    pre: list = field(default_factory=list)             # extra `pre:` expressions over params / CUBE
    timeout: float = 120.0              # per-cube CrossHair budget (s, single core)
    path_timeout: float = 60.0
    witnesses: list = field(default_factory=list)       # [(cube, args)] concrete inputs (samples, profile)
    bound: str = ''                     # human-readable bound of this query
    requires: list = field(default_factory=list)        # maltoolbox functions that must be executed
    fresh_process: bool = False         # run every cube in a new worker process
    split: list = field(default_factory=list)           # names of bool/int params turned into cube variables

    def __post_init__(self):
        if self.split:
            import itertools
            sp = [p for p in self.params if p.name in self.split]
            assert len(sp) == len(self.split), 'unknown split parameter'
            doms = [[False, True] if p.typ == 'bool' else list(range(int(p.lo), int(p.hi) + 1)) for p in sp]
            cubes = []
            for c in self.cubes:
                for vals in itertools.product(*doms):
                    d = dict(c)
                    d['_fixed'] = dict(c.get('_fixed', {}), **dict(zip([p.name for p in sp], vals)))
                    cubes.append(d)
            self.cubes = cubes
            self.params = [p for p in self.params if p.name not in self.split]

    def space(self) -> str:
        return ', '.join(
            p.name + ':' + (p.typ if p.typ == 'bool' else '%s[%s..%s]' % (p.typ, p.lo, p.hi))
            for p in self.params)


def getter(queries_fn):
    cache = {}

    def get_query(name, tier):
        if tier not in cache:
            cache[tier] = {q.name: q for q in queries_fn(tier)}
        return cache[tier][name]
    return get_query
