"""C02 - one node per asset x step, with attributes faithful to model and language."""
from __future__ import annotations

from xh.spec import Query, B, I, getter
from xh.g import idx, has_identity
from xh.rt import notrace, pick, reclimit
from xh import langs, mb

PROP = 'C02'
T0 = ['Am', 'G1', 'G2']
T1 = ['G1', 'G2', 'O']
DV = [None, 0.0, 0.3, 1.0, 0.125]
NAMES = ['a', 'a:1', 'a:2', 'b']
PTYPES = ('Am', 'G1', 'G2')


def check_nodes(g, m, assets, spec, rel):
    want = []
    for i, a in enumerate(assets):
        for sname, decl in langs.ref_fold(spec, rel.types[i]).items():
            want.append((i, sname, decl))
    if len(g.nodes) != len(want):
        return 'graph has %d nodes, assets x exposed steps gives %d' % (len(g.nodes), len(want))
    ids, names = [], []
    for (i, sname, decl) in want:
        a = assets[i]
        cands = [n for n in g.nodes if n.asset is a and n.name == sname]
        if len(cands) != 1:
            return '%d nodes for asset %s step %s' % (len(cands), a.name, sname)
        n = cands[0]
        if n.type != decl['type'] or n.ttc != decl['ttc'] or list(n.tags) != list(decl['tags']):
            return 'node %s: type/ttc/tags (%s, %s, %s) differ from the resolved declaration (%s, %s, %s)' % (
                n.full_name, n.type, n.ttc, n.tags, decl['type'], decl['ttc'], decl['tags'])
        if n.mitre_info != decl['meta'].get('mitre'):
            return 'node %s: mitre_info %r, declaration says %r' % (n.full_name, n.mitre_info, decl['meta'].get('mitre'))
        if decl['type'] == 'defense':
            if n.defense_status is None or float(n.defense_status) != float(getattr(a, sname)):
                return 'node %s: defense_status %r, asset value %r' % (n.full_name, n.defense_status, getattr(a, sname))
        elif n.defense_status is not None:
            return 'node %s is no defense but has a defense_status' % n.full_name
        if decl['type'] in ('exist', 'notExist'):
            lo, up = langs.ev(rel, decl['requires']['stepExpressions'][0], {i}, rel.types[i])
            if n.existence_status is not (len(lo) > 0):
                return 'node %s: existence_status %r, requirement reaches %d assets' % (n.full_name, n.existence_status, len(lo))
        elif n.existence_status is not None:
            return 'node %s is no existence step but has an existence_status' % n.full_name
        if n.full_name != str(a.name) + ':' + sname:
            return 'node %s: full name is not asset name : step name' % n.full_name
        if n.id in ids:
            return 'node id %r used twice' % n.id
        if n.full_name in names:
            return 'full name %s used twice' % n.full_name
        ids.append(n.id)
        names.append(n.full_name)
        if g.get_node_by_id(n.id) is not n:
            return 'get_node_by_id(%r) does not return node %s' % (n.id, n.full_name)
        if g.get_node_by_full_name(n.full_name) is not n:
            return 'get_node_by_full_name(%s) does not return that node' % n.full_name
    if g.get_node_by_id(max(ids) + 1 if ids else 0) is not None or g.get_node_by_full_name('nosuch:step') is not None:
        return 'lookup of an absent key returns a node'
    return ''


def body_attrs(cube, **kw):
    from maltoolbox.attackgraph import AttackGraph
    t0 = pick(kw['t0'], T0)
    t1 = pick(kw['t1'], T1)
    dp = pick(kw['dp'], DV)
    da = bool(kw['da'])
    l02, l102, l12 = bool(kw['l02']), bool(kw['l102']), bool(kw['l12'])
    with notrace(), reclimit():
        spec = langs.L_INH()
        lg, lcf = langs.build_lang(spec)
        types = [t0, t1, 'O']
        m, assets = mb.build_model(lcf, types)
        rel = langs.rel_for(spec, types)
        if dp is not None:
            assets[0].dP = dp
        if da:
            assets[0].dA = 1.0
        if l02:
            mb.add_link(m, lcf, 'L', 'ps', [assets[0]], 'os', [assets[2]]); rel.add_link('ps', 0, 'os', 2)
        if l102:
            mb.add_link(m, lcf, 'L1', 'ps1', [assets[0]], 'os1', [assets[2]]); rel.add_link('ps1', 0, 'os1', 2)
        if l12:
            if t1 in PTYPES:
                mb.add_link(m, lcf, 'L', 'ps', [assets[1]], 'os', [assets[2]]); rel.add_link('ps', 1, 'os', 2)
            else:
                mb.add_link(m, lcf, 'L', 'ps', [assets[0]], 'os', [assets[1]]); rel.add_link('ps', 0, 'os', 1)
        if t1 == 'O' and l12:
            mb.add_link(m, lcf, 'Chain', 'prv', [assets[1]], 'nxt', [assets[2]]); rel.add_link('prv', 1, 'nxt', 2)
        g = AttackGraph(lg, m)
        r = check_nodes(g, m, assets, spec, rel)
        if r:
            return r
        return mb.check_edges(g, assets, rel, lambda t: {n: (d['reaches']['stepExpressions'] if d['reaches'] else [])
                                                         for n, d in langs.ref_fold(spec, t).items()})


def body_names(cube, **kw):
    from maltoolbox.attackgraph import AttackGraph
    from maltoolbox.model import Model
    nm = [pick(kw['n%d' % i], NAMES) for i in range(3)]
    id2 = pick(kw['id2'], [None, 5, 1])
    with notrace(), reclimit():
        spec = langs.L_INH()
        lg, lcf = langs.build_lang(spec)
        types = ['G2', 'O', 'G2']
        m = Model('m', lcf)
        assets = []
        for i in range(3):
            a = getattr(lcf.ns, types[i])(name=nm[i])
            try:
                if i == 2 and id2 is not None:
                    m.add_asset(a, asset_id=id2)
                else:
                    m.add_asset(a)
            except ValueError:
                if i == 2 and id2 == 1:
                    return ''       # id in use: rejected, nothing to generate
                raise
            assets.append(a)
        seen = []
        for a in assets:
            if str(a.name) in seen:
                return 'model holds two assets named %s (requested names %s)' % (a.name, nm)
            seen.append(str(a.name))
        rel = langs.rel_for(spec, types)
        g = AttackGraph(lg, m)
        return check_nodes(g, m, assets, spec, rel)


def queries(tier):
    ps = [I('t0', 0, 2), I('t1', 0, 2), I('dp', 0, 4), B('da'), B('l02'), B('l102'), B('l12')]
    qs = [Query(name='attrs', body=body_attrs, params=ps, split=['t0', 't1'], timeout=500,
                witnesses=[({}, {'t0': 1, 't1': 0, 'dp': 2, 'da': True, 'l02': True, 'l102': False, 'l12': True}),
                           ({}, {'t0': 0, 't1': 2, 'dp': 0, 'da': False, 'l02': False, 'l102': True, 'l12': True})],
                bound='language L_INH (abstract P <- A <- {G1,G2}, O; override/extend redefinitions, defenses Enabled/Disabled/without TTC, '
                      'exist/notExist, variable, subType, tags, mitre); 3 assets: types %s x %s x O, defense value picks %s, every subset of 3 links'
                      % (T0, T1, DV))]
    ps = [I('n0', 0, 3), I('n1', 0, 3), I('n2', 0, 3), I('id2', 0, 2)]
    qs.append(Query(name='names', body=body_names, params=ps, split=['n0'], timeout=500,
                    witnesses=[({}, {'n0': 0, 'n1': 3, 'n2': 0, 'id2': 0})],
                    bound='3 assets whose requested names range over %s (names containing ":" and collisions after automatic renaming), '
                          'third asset with id None / 5 / 1 (in use)' % NAMES))
    return qs


META = {
    'bounds': 'L_INH, 3 assets; all type/defense/link picks; all name triples over 4 names',
    'outside': ['names outside the pick set (arbitrary unicode cannot enter pjo symbolically)', 'more than 3 assets'],
    'stubs': ['pjo MakeLiteral memoised; pjo class building untraced'],
    'assumptions': ['all inputs are concrete once the picks are decided: the real generator runs untraced on that path'],
    'requires': ['AttackGraph._generate_graph', 'AttackGraph.add_node', 'AttackGraphNode.full_name', 'Model.add_asset',
                 'LanguageGraph._get_attacks_for_asset_type'],
}
get_query = getter(queries)
