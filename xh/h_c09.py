"""C09 - attack-graph structure and lookup indexes stay consistent in any history."""
from __future__ import annotations

import copy
import os

from xh.spec import Query, B, I, getter
from xh.g import new_graph, add_nodes, link, wellformed, has_identity, idx
from xh.rt import notrace, pick, reclimit
from xh import langs, mb

PROP = 'C09'
OPS = ['add_node()', 'add_node(id=ID)', 'remove_node(n)', 'add_attacker()', 'add_attacker(id=ID)', 'remove_attacker(a)',
       'compromise(a,n)', 'undo_compromise(a,n)', 'calculate_viability_and_necessity', 'prune', 'deepcopy and continue on the copy',
       'save+load json and continue on the loaded graph', 'save+load yml and continue on the loaded graph']
IDS = [0, 1, 2, 3, 7]
_CNT = [0]


def _names(g):
    return sorted(n.full_name for n in g.nodes)


def _step(g, st, o, ni, ai, idv, s):
    """Apply op o; st = shadow state dict(seen_ids, seen_names, expect names or None)."""
    from maltoolbox.attackgraph import AttackGraph, AttackGraphNode, Attacker
    from maltoolbox.attackgraph.analyzers.apriori import (calculate_viability_and_necessity,
                                                         prune_unviable_and_unnecessary_nodes)
    nodes = g.nodes
    atts = g.attackers
    before_names = _names(g)
    before_ids = sorted(n.id for n in g.nodes)
    if o == 0 or o == 1:
        nd = AttackGraphNode(type='or', name='x%d' % s)
        if o == 0 and ni == 1 and g.nodes:
            nd.id = g.nodes[0].id          # a node object that already carries an id (e.g. taken from another graph)
        explicit = IDS[idv] if o == 1 else None
        used = explicit is not None and g.get_node_by_id(explicit) is not None
        try:
            g.add_node(nd, node_id=explicit)
        except ValueError:
            if not used:
                return g, 'add_node(id=%s) raised although the id is free' % explicit
            if _names(g) != before_names or sorted(n.id for n in g.nodes) != before_ids:
                return g, 'add_node raised but changed the graph'
            return g, ''
        if explicit is not None and nd.id != explicit:
            return g, 'add_node(id=%s) assigned id %s' % (explicit, nd.id)
        if not has_identity(g.nodes, nd):
            return g, 'add_node did not add the node'
        st['seen_ids'].append(nd.id)
        st['seen_names'].append(nd.full_name)
    elif o == 2:
        if nodes:
            nd = nodes[ni % len(nodes)]
            g.remove_node(nd)
            if has_identity(g.nodes, nd):
                return g, 'remove_node left the node in the graph'
            if g.get_node_by_id(nd.id) is nd or g.get_node_by_full_name(nd.full_name) is nd:
                return g, 'removed node still returned by a lookup'
    elif o == 3 or o == 4:
        a = Attacker(name='b%d' % s)
        explicit = IDS[idv] if o == 4 else None
        used = explicit is not None and g.get_attacker_by_id(explicit) is not None
        try:
            g.add_attacker(a, attacker_id=explicit)
        except ValueError:
            if not used:
                return g, 'add_attacker(id=%s) raised although the id is free' % explicit
            if has_identity(g.attackers, a):
                return g, 'add_attacker raised but added the attacker'
            return g, ''
        if used:
            return g, 'add_attacker(id=%s) accepted an id that is in use' % explicit
        if explicit is not None and a.id != explicit:
            return g, 'add_attacker(id=%s) assigned id %s' % (explicit, a.id)
        if not has_identity(g.attackers, a):
            return g, 'add_attacker did not add the attacker'
    elif o == 5:
        if atts:
            a = atts[ai % len(atts)]
            g.remove_attacker(a)
            if has_identity(g.attackers, a) or g.get_attacker_by_id(a.id) is a:
                return g, 'removed attacker still in the graph'
            for n in g.nodes:
                if has_identity(n.compromised_by, a):
                    return g, 'node still compromised by a removed attacker'
    elif o == 6 or o == 7:
        if atts and nodes:
            a = atts[ai % len(atts)]
            nd = nodes[ni % len(nodes)]
            if o == 6:
                a.compromise(nd)
            else:
                a.undo_compromise(nd)
    elif o == 8:
        calculate_viability_and_necessity(g)
    elif o == 9:
        prune_unviable_and_unnecessary_nodes(g)
        for n in g.nodes:
            if n.type in ('or', 'and') and (not n.is_viable or not n.is_necessary):
                return g, 'prunable node survived pruning'
    elif o == 10:
        c = copy.deepcopy(g)
        if _names(c) != before_names:
            return c, 'deep copy has different nodes'
        g = c
    else:
        _CNT[0] += 1
        path = os.path.join(os.getcwd(), 'c09_%d_%d.%s' % (os.getpid(), _CNT[0], 'json' if o == 11 else 'yml'))
        g.save_to_file(path)
        try:
            l = AttackGraph.load_from_file(path)
        finally:
            try:
                os.remove(path)
            except OSError:
                pass
        if _names(l) != before_names:
            return l, 'loaded graph has nodes %s, saved graph had %s' % (_names(l), before_names)
        if sorted(n.id for n in l.nodes) != before_ids:
            return l, 'loaded graph has different node ids'
        if sorted(a.id for a in l.attackers) != sorted(a.id for a in g.attackers):
            return l, 'loaded graph has attackers %s, saved graph had %s' % (
                sorted(a.id for a in l.attackers), sorted(a.id for a in g.attackers))
        g = l
    return g, wellformed(g, st['seen_ids'], st['seen_names'])


def body_hist(cube, **kw):
    from maltoolbox.attackgraph import Attacker
    k = cube['k']
    with notrace():
        g = new_graph()
        from maltoolbox.attackgraph import AttackGraphNode
        nodes = []
        for t, nm, i in (('defense', 'n0', 0), ('or', 'n1', 2), ('and', 'n2', 3)):
            nd = AttackGraphNode(type=t, name=nm)
            g.add_node(nd, node_id=i)
            nodes.append(nd)
        nodes[0].defense_status = 1.0
        a = Attacker(name='a0'); g.add_attacker(a)
        st = {'seen_ids': [n.id for n in nodes], 'seen_names': [n.full_name for n in nodes]}
    with notrace():
        for (i, j) in ((0, 1), (1, 2), (2, 1), (1, 1), (0, 1)):     # incl. a parallel edge 0 -> 1
            link(nodes[i], nodes[j])
    if kw['r']:
        a.compromise(nodes[1])
        a.entry_points = [nodes[1]]
        with notrace():
            a2 = Attacker(name='second')   # (a shared name would run into the known finding C10-attackers-keyed-by-name on save/load)
            g.add_attacker(a2)
        a2.compromise(nodes[1])
        a2.compromise(nodes[2])
    with notrace():
        r = wellformed(g, st['seen_ids'], st['seen_names'])
    if r:
        return 'start graph: ' + r
    for s in range(k):
        # arguments are read lazily: only those the operation uses become decisions
        o = idx(kw['o%d' % s], len(OPS))
        ni = idx(kw['n%d' % s], 3) if o in (2, 6, 7) else (idx(kw['n%d' % s], 2) if o == 0 else 0)
        ai = idx(kw['a%d' % s], 2) if o in (5, 6, 7) else 0
        idv = idx(kw['i%d' % s], len(IDS)) if o in (1, 4) else 0
        with notrace(), reclimit():
            g, r = _step(g, st, o, ni, ai, idv, s)
        if r:
            return 'step %d %s (n=%d a=%d id=%s): %s' % (s, OPS[o], ni, ai, IDS[idv], r)
    return ''


# ---------------------------------------------------------------- generated graphs: regenerate / attach_attackers
def L_MINI():
    L = langs
    steps = [L.step('a', 'or', reaches=[L.to(L.fld('q'), 'b'), L.astep('c'), L.to(L.fld('q'), 'b'), L.astep('c')]),
             L.step('b', 'and', reaches=[L.astep('c')]),
             L.step('c', 'or'),
             L.step('d', 'defense', reaches=[L.astep('a')], ttc=L.DISABLED)]
    return L.spec([L.asset('N', steps=steps)], [L.assoc('PQ', 'N', 'p', L.MANY, 'N', 'q', L.MANY)], lang_id='verif.mini')


GOPS = ['regenerate_graph', 'attach_attackers', 'remove_node(n)', 'compromise(n)', 'add_node()', 'remove_attacker(0)',
        'calculate+prune', 'model: add asset + regenerate', 'model: set defense + regenerate',
        'model: remove last asset + regenerate', 'save+load json WITHOUT the model and continue on the loaded graph',
        'save+load yml with the model and continue on the loaded graph']


def body_gen(cube, **kw):
    from maltoolbox.attackgraph import AttackGraph, AttackGraphNode, Attacker
    from maltoolbox.model import AttackerAttachment
    from maltoolbox.attackgraph.analyzers.apriori import (calculate_viability_and_necessity,
                                                         prune_unviable_and_unnecessary_nodes)
    k = cube['k']
    ops = [idx(kw['o%d' % s], len(GOPS)) for s in range(k)]
    nis = [(idx(kw['n%d' % s], 4) if ops[s] in (2, 3) else 0) for s in range(k)]
    link_bit = bool(kw['l'])
    att_bit = bool(kw['at'])
    with notrace(), reclimit():
        lg, lcf = langs.build_lang(L_MINI())
        m, assets = mb.build_model(lcf, ['N', 'N'])
        if link_bit:
            mb.add_link(m, lcf, 'PQ', 'p', [assets[0]], 'q', [assets[1]])
        if att_bit:
            at = AttackerAttachment(name='att')
            at.entry_points = [(assets[0], ['a', 'nosuchstep']), (assets[1], ['c'])]
            m.add_attacker(at)
        g = AttackGraph(lg, m)
        seen_ids = [n.id for n in g.nodes]
        seen_names = [n.full_name for n in g.nodes]
        r = wellformed(g, seen_ids, seen_names)
        if r:
            return 'generated graph: ' + r
        for s in range(k):
            o, ni = ops[s], nis[s]
            if o in (0, 7, 8, 9) and g.lang_graph is None:
                pass                        # a loaded graph has no language graph to regenerate from
            elif o == 1 and g.model is None:
                pass
            elif o == 10 or o == 11:
                _CNT[0] += 1
                path = os.path.join(os.getcwd(), 'c09g_%d_%d.%s' % (os.getpid(), _CNT[0], 'json' if o == 10 else 'yml'))
                g.save_to_file(path)
                try:
                    l = AttackGraph.load_from_file(path, model=None if o == 10 else m)
                finally:
                    try:
                        os.remove(path)
                    except OSError:
                        pass
                if sorted(n.id for n in l.nodes) != sorted(n.id for n in g.nodes):
                    return 'step %d: loaded graph has different node ids' % s
                g = l
            elif o == 0 or o == 7 or o == 8 or o == 9:
                if o == 9 and len(m.assets) > 1:
                    m.remove_asset(m.assets[-1])
                if o == 7:
                    m.add_asset(lcf.ns.N(name='late%d' % s))
                if o == 8:
                    assets[1].d = 1.0
                old_nodes = list(g.nodes)
                g.regenerate_graph()
                fresh = AttackGraph(lg, m)
                if g._to_dict() != fresh._to_dict():
                    return 'step %d: regenerated graph differs from a freshly generated one' % s
                if g.next_node_id != fresh.next_node_id or g.next_attacker_id != fresh.next_attacker_id:
                    return 'step %d: regenerated graph continues the id counters (%s/%s vs fresh %s/%s)' % (
                        s, g.next_node_id, g.next_attacker_id, fresh.next_node_id, fresh.next_attacker_id)
                for i in seen_ids + [n.id for n in g.nodes]:
                    x = g.get_node_by_id(i)
                    if x is not None and has_identity(old_nodes, x):
                        return 'step %d: lookup of id %s after regeneration returns a pre-regeneration node' % (s, i)
                    if (x is None) != (fresh.get_node_by_id(i) is None):
                        return 'step %d: lookup of id %s differs between regenerated and fresh graph' % (s, i)
                for nm in seen_names:
                    x = g.get_node_by_full_name(nm)
                    if x is not None and has_identity(old_nodes, x):
                        return 'step %d: lookup of %s after regeneration returns a pre-regeneration node' % (s, nm)
                    if (x is None) != (fresh.get_node_by_full_name(nm) is None):
                        return 'step %d: lookup of %s differs between regenerated and fresh graph' % (s, nm)
                if g.attackers:
                    return 'step %d: regenerated graph still has attackers' % s
                if g.get_attacker_by_id(0) is not None:
                    return 'step %d: attacker lookup after regeneration returns a stale attacker' % s
            elif o == 1:
                nb = len(g.attackers)
                g.attach_attackers()
                if len(g.attackers) != nb + len(m.attackers):
                    return 'step %d: attach_attackers created %d attackers for %d model attackers' % (
                        s, len(g.attackers) - nb, len(m.attackers))
                for ga in g.attackers[nb:]:
                    want = sorted(x for x in ['a0:a', 'a1:c'] if g.get_node_by_full_name(x) is not None)
                    if sorted(x.full_name for x in ga.entry_points) != want or \
                            sorted(x.full_name for x in ga.reached_attack_steps) != want:
                        return 'step %d: attached attacker has entry points %s / reached %s, expected %s' % (
                            s, [x.full_name for x in ga.entry_points], [x.full_name for x in ga.reached_attack_steps], want)
            elif o == 2:
                if g.nodes:
                    g.remove_node(g.nodes[ni % len(g.nodes)])
            elif o == 3:
                if g.nodes and g.attackers:
                    g.attackers[0].compromise(g.nodes[ni % len(g.nodes)])
            elif o == 4:
                nd = AttackGraphNode(type='or', name='x%d' % s)
                g.add_node(nd)
                seen_ids.append(nd.id)
                seen_names.append(nd.full_name)
            elif o == 5:
                if g.attackers:
                    g.remove_attacker(g.attackers[0])
            else:
                calculate_viability_and_necessity(g)
                prune_unviable_and_unnecessary_nodes(g)
            seen_ids += [n.id for n in g.nodes if n.id not in seen_ids]
            seen_names += [n.full_name for n in g.nodes if n.full_name not in seen_names]
            r = wellformed(g, seen_ids, seen_names)
            if r:
                return 'step %d %s: %s' % (s, GOPS[o], r)
    return ''


def queries(tier):
    k = 2 if tier == 'quick' else 3
    ps = [B('r')]
    for s in range(k):
        ps += [I('o%d' % s, 0, len(OPS) - 1), I('n%d' % s, 0, 2), I('a%d' % s, 0, 1), I('i%d' % s, 0, len(IDS) - 1)]
    w = {p.name: (True if p.typ == 'bool' else 0) for p in ps}
    wits = []
    for o in range(len(OPS)):
        ww = dict(w); ww['o0'] = o; ww['o1'] = (o + 5) % len(OPS)
        wits.append(({'k': k}, ww))
    pre = []
    qs = [Query(name='hist', body=body_hist, params=ps, cubes=[{'k': k}], split=['o0'] if k == 2 else ['o0', 'o1'],
                pre=pre, timeout=500 if tier == 'quick' else 1700, witnesses=wits,
                bound='hand-built 3-node graph with ids 0, 2, 3 (enabled defense -> or <-> and, self-loop on the or step), one attacker '
                      'optionally on node 1; every sequence of %d operations from %s with node/attacker/id arguments (ids from %s)' % (k, OPS, IDS))]
    kg = 2 if tier == 'quick' else 3
    ps = [B('l'), B('at')]
    for s in range(kg):
        ps += [I('o%d' % s, 0, len(GOPS) - 1), I('n%d' % s, 0, 3)]
    w = {p.name: (True if p.typ == 'bool' else 0) for p in ps}
    wits = []
    for o in range(len(GOPS)):
        ww = dict(w); ww['o0'] = o; ww['o1'] = (o + 1) % len(GOPS)
        wits.append(({'k': kg}, ww))
    qs.append(Query(name='gen', body=body_gen, params=ps, cubes=[{'k': kg}], split=['o0'], timeout=500 if tier == 'quick' else 1700,
                    witnesses=wits,
                    bound='graph generated from a 2-asset model of L_MINI (link and model attacker symbolic); every sequence of %d operations from %s'
                          % (kg, GOPS)))
    return qs


META = {
    'bounds': 'histories of 2 (quick) / 3 (thorough) operations on a hand-built 3-node graph and on a graph generated from a 2-asset model',
    'outside': ['longer histories', 'larger start graphs'],
    'stubs': ['pjo MakeLiteral memoised; pjo class building untraced'],
    'assumptions': ['an operation that raises ValueError for an id in use is accepted (state must be unchanged)',
                    'after the operation picks are decided all values are concrete: the real operations run untraced on that path'],
    'requires': ['AttackGraph.add_node', 'AttackGraph.remove_node', 'AttackGraph.regenerate_graph', 'AttackGraph.add_attacker',
                 'AttackGraph.remove_attacker', 'AttackGraph.__deepcopy__', 'AttackGraph._from_dict', 'AttackGraph.attach_attackers'],
}
get_query = getter(queries)
