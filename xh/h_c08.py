"""C08 - viability/necessity labels are the greatest fixed point, in any node order."""
from __future__ import annotations

import itertools

from xh.spec import Query, B, I, F, getter
from xh.g import new_graph, add_nodes, link, TYPES5
from xh.rt import notrace, pick

PROP = 'C08'
TTCS = [None,
        {'type': 'function', 'name': 'Enabled', 'arguments': []},
        {'type': 'function', 'name': 'Exponential', 'arguments': [0.1]},
        {'type': 'function', 'name': 'Disabled', 'arguments': []}]


def is_dist(ttc):
    """'TTC is a probability distribution' (DESIGN 4a): has a name other than Enabled/Disabled."""
    return bool(ttc) and 'name' in ttc and ttc['name'] not in ('Enabled', 'Disabled')


def gfp(types, parents, dstat, estat, dist):
    """Kleene iteration from top of the equations in the property text."""
    n = len(types)
    via = [True] * n
    nec = [True] * n
    for i in range(n):
        t = types[i]
        if t == 'defense':
            via[i] = dstat[i] != 1.0
            nec[i] = dstat[i] != 0.0
        elif t == 'exist':
            via[i] = bool(estat[i])
            nec[i] = not estat[i]
        elif t == 'notExist':
            via[i] = not estat[i]
            nec[i] = bool(estat[i])
    changed = True
    while changed:
        changed = False
        for i in range(n):
            t = types[i]
            if t not in ('or', 'and') or not parents[i]:
                continue
            if t == 'or':
                v = False
                c = True
                for p in parents[i]:
                    v = v or via[p]
                    c = c and (nec[p] or dist[p])
            else:
                v = True
                c = False
                for p in parents[i]:
                    v = v and via[p]
                    c = c or (nec[p] or dist[p])
            # greatest fixed point: labels only ever go from True to False
            v = via[i] and v
            c = nec[i] and c
            if v != via[i] or c != nec[i]:
                via[i], nec[i] = v, c
                changed = True
    return via, nec


def _build(cube, kw, order, rev):
    n = cube['n']
    types = cube['types']
    ttcs = [pick(kw['k%d' % i], TTCS[:cube.get('ttc_dom', 4)]) if ('k%d' % i) in kw else None for i in range(n)]
    with notrace():
        g = new_graph()
        perm_types = [types[i] for i in order]
        nodes_p = add_nodes(g, perm_types, names=['n%d' % i for i in order])
        nodes = [None] * n
        for pos, i in enumerate(order):
            nodes[i] = nodes_p[pos]
    dstat = [None] * n
    estat = [None] * n
    for i in range(n):
        nodes[i].ttc = ttcs[i]
        if types[i] == 'defense':
            dstat[i] = kw['d%d' % i]
            nodes[i].defense_status = dstat[i]
            if ('sp%d' % i) in kw and kw['sp%d' % i]:
                nodes[i].tags = ['suppress']       # a suppressed defense is still labelled from its status
        elif types[i] in ('exist', 'notExist'):
            estat[i] = kw['x%d' % i]
            nodes[i].existence_status = estat[i]
    parents = [[] for _ in range(n)]
    pairs = [(i, j) for i in range(n) for j in range(n)]
    if rev:
        pairs.reverse()
    for (i, j) in pairs:
        name = 'e%d%d' % (i, j)
        if name in kw and kw[name]:
            link(nodes[i], nodes[j])
            parents[j].append(i)
    return g, nodes, types, parents, dstat, estat, [is_dist(t) for t in ttcs]


def body_gfp(cube, **kw):
    from maltoolbox.attackgraph.analyzers.apriori import calculate_viability_and_necessity
    g, nodes, types, parents, dstat, estat, dist = _build(cube, kw, list(range(cube['n'])), kw.get('rev', False))
    calculate_viability_and_necessity(g)
    via, nec = gfp(types, parents, dstat, estat, dist)
    for i in range(cube['n']):
        if bool(nodes[i].is_viable) != bool(via[i]):
            return 'node %d (%s): is_viable=%s, greatest fixed point says %s' % (i, types[i], bool(nodes[i].is_viable), bool(via[i]))
        if bool(nodes[i].is_necessary) != bool(nec[i]):
            return 'node %d (%s): is_necessary=%s, greatest fixed point says %s' % (i, types[i], bool(nodes[i].is_necessary), bool(nec[i]))
    return ''


def body_order(cube, **kw):
    """Same graph stored under two node orders: labels must agree (no oracle involved)."""
    from maltoolbox.attackgraph.analyzers.apriori import calculate_viability_and_necessity
    n = cube['n']
    perms = list(itertools.permutations(range(n)))
    order = pick(kw['perm'], perms)
    g1, nodes1, types, _, _, _, _ = _build(cube, kw, list(range(n)), False)
    g2, nodes2, _, _, _, _, _ = _build(cube, kw, list(order), kw['rev'])
    calculate_viability_and_necessity(g1)
    calculate_viability_and_necessity(g2)
    for i in range(n):
        if bool(nodes1[i].is_viable) != bool(nodes2[i].is_viable) or \
                bool(nodes1[i].is_necessary) != bool(nodes2[i].is_necessary):
            return 'node %d labelled (%s,%s) in index order but (%s,%s) under node order %s' % (
                i, bool(nodes1[i].is_viable), bool(nodes1[i].is_necessary),
                bool(nodes2[i].is_viable), bool(nodes2[i].is_necessary), list(order))
    return ''


def _params(n, types, selfloops, ttc_dom, ttc_nodes, sup=False):
    ps = []
    for i in range(n):
        if types[i] == 'defense':
            ps.append(F('d%d' % i, 0.0, 1.0))
            if sup:
                ps.append(B('sp%d' % i))
        elif types[i] in ('exist', 'notExist'):
            ps.append(B('x%d' % i))
        if ttc_dom > 1 and i in ttc_nodes:
            ps.append(I('k%d' % i, 0, ttc_dom - 1))
    for i in range(n):
        for j in range(n):
            if i != j or selfloops:
                ps.append(B('e%d%d' % (i, j)))
    return ps


def _wit(ps, **over):
    w = {}
    for p in ps:
        w[p.name] = False if p.typ == 'bool' else (0 if p.typ == 'int' else 0.0)
    w.update(over)
    return w


def family(name, n, tvecs, selfloops, ttc_dom, ttc_nodes, timeout, body=body_gfp, extra=(), maxe=None, split=(), sup=False):
    """One Query per parameter signature (the signature depends on the type vector)."""
    groups = {}
    for ts in tvecs:
        ps = _params(n, ts, selfloops, ttc_dom, ttc_nodes, sup) + list(extra)
        groups.setdefault(tuple((p.name, p.typ) for p in ps), []).append((ts, ps))
    res = []
    for gi, (sig, members) in enumerate(sorted(groups.items())):
        ps = members[0][1]
        ebits = [p.name for p in ps if p.name.startswith('e')]
        pre = ['%s <= %d' % (' + '.join(ebits), maxe)] if maxe is not None else []
        res.append(Query(
            name='%s_%d' % (name, gi), body=body, params=list(ps), pre=pre, split=list(split),
            cubes=[{'n': n, 'types': list(ts)} for ts, _ in members], timeout=timeout,
            witnesses=[({'n': n, 'types': list(members[0][0])}, _wit(ps, **{ebits[0]: True, ebits[-1]: True}))],
            bound='%d nodes, type vectors %s, %s self-loops, every edge set%s, symbolic defense status in [0,1] (real), '
                  'symbolic existence status%s, TTC kind pick among the first %d of %s on nodes %s' % (
                      n, [list(m[0]) for m in members], 'with' if selfloops else 'without',
                      '' if maxe is None else ' with <= %d edges' % maxe, ', defenses optionally tagged suppress' if sup else '', ttc_dom,
                      [t and t['name'] for t in TTCS], list(ttc_nodes))))
    return res


def queries(tier):
    P = itertools.product
    qs = []
    src = ['defense', 'exist']
    if tier == 'quick':
        qs += family('g2', 2, list(P(TYPES5, repeat=2)), True, 3, [0, 1], 300)
        qs += family('g2s', 2, [t for t in P(TYPES5, repeat=2) if 'defense' in t], True, 1, [], 300, sup=True)
        # two status-carrying parents feeding one or/and step (TTC gate on the reading side), all non-self edges
        qs += family('g3t', 3, [a + (c,) for a in [('defense', 'defense'), ('defense', 'exist'), ('exist', 'exist')] for c in ('or', 'and')],
                     False, 3, [0, 1], 300, maxe=2, split=['k0', 'k1'])
        qs += family('g3', 3, list(P(['or', 'and'], repeat=2)) and [(a,) + b for a in ('defense',) for b in P(['or', 'and'], repeat=2)],
                     True, 1, [], 300, maxe=4)
        qs += family('ord2', 2, list(P(['or', 'and', 'defense'], repeat=2)), True, 1, [], 300, body=body_order,
                     extra=[I('perm', 0, 1), B('rev')], split=['perm', 'rev'])
    else:
        qs += family('g2', 2, list(P(TYPES5, repeat=2)), True, 4, [0, 1], 900)
        qs += family('g2s', 2, [t for t in P(TYPES5, repeat=2) if 'defense' in t], True, 1, [], 900, sup=True)
        qs += family('g3', 3, list(P(['or', 'and', 'defense'], repeat=3)), False, 2, [0, 1], 1700, maxe=3)
        qs += family('g3s', 3, [('defense',) + b for b in P(['or', 'and'], repeat=2)] + [('or', 'and', 'or'), ('and', 'and', 'or')], True, 1, [], 1700, maxe=4)
        qs += family('g3t', 3, [a + (c,) for a in P(TYPES5[2:], repeat=2) for c in ('or', 'and')], False, 4, [0, 1], 1700, maxe=3, split=['k0'])
        qs += family('ord3', 3, [('defense',) + b for b in P(['or', 'and'], repeat=2)] + [('or', 'defense', 'and'), ('and', 'or', 'exist')], False, 2, [0], 1700, body=body_order,
                     extra=[I('perm', 0, 5), B('rev')], maxe=4, split=['perm', 'rev'])
    return qs


META = {
    'bounds': 'hand-built graphs: N=2 complete (all 25 type vectors, self-loops, all edge sets, symbolic statuses, TTC kinds); '
              'N=3 as stated per query; node-order harness compares two storage orders of the same graph directly',
    'outside': ['N >= 4', 'composite TTC expressions (addition, ...: no name key) - the property does not define whether they are distributions',
                'graphs pre-labelled before the analysis (labels start at their defaults True/True)'],
    'stubs': [],
    'assumptions': ['"TTC is a probability distribution" = ttc has a name not in {Enabled, Disabled} (DESIGN 4a)',
                    'defense status is a real in [0,1] in the solver; NaN is outside'],
    'requires': ['calculate_viability_and_necessity', 'propagate_viability_from_node', 'propagate_necessity_from_node',
                 'evaluate_viability', 'evaluate_necessity'],
}
get_query = getter(queries)
