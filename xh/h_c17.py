"""C17 - malformed MAL source is rejected, never half-compiled."""
from __future__ import annotations

import os
import shutil

from xh.spec import Query, B, I, getter
from xh.g import idx
from xh.rt import notrace, pick, reclimit
from xh import langs, malprint

PROP = 'C17'
# one representative per lexer class plus an illegal character
ALPHA = ['#', ':', '"x"', 'a', '{', '}', 'E', '1', '.', '$', ' ', 'category', 'asset', '|', '->', '[', ']', '<--', '-->', '*', 'include']
_CNT = [0]

VALID = '''#id: "a.b"
#version: "1.0.0"
category K {
  abstract asset P { | s [Exponential(0.1)] -> t | t }
  asset Q extends P { let v = f.g
    & s @hidden {C, I} +> v().t, f[Q].s
    # d [Enabled] user info: "x" -> s
    E x <- f -> t
  }
}
associations {
  P [f] 0..1 <-- L --> * [g] Q
}
'''


def tokens_of(text):
    """Token texts of a valid program, using the real generated lexer."""
    from antlr4 import InputStream, CommonTokenStream, Token
    from maltoolbox.language.compiler.mal_lexer import malLexer
    lx = malLexer(InputStream(text))
    st = CommonTokenStream(lx)
    st.fill()
    return [t.text for t in st.tokens if t.type != Token.EOF]


def grammar_errors(text):
    """The grammar's own verdict: number of lexer + parser errors reported to a counting listener."""
    from antlr4 import InputStream, CommonTokenStream
    from antlr4.error.ErrorListener import ErrorListener
    from maltoolbox.language.compiler.mal_lexer import malLexer
    from maltoolbox.language.compiler.mal_parser import malParser

    class Count(ErrorListener):
        def __init__(self):
            super().__init__()
            self.n = 0

        def syntaxError(self, recognizer, offendingSymbol, line, column, msg, e):
            self.n += 1
    c = Count()
    lx = malLexer(InputStream(text))
    lx.removeErrorListeners(); lx.addErrorListener(c)
    ps = malParser(CommonTokenStream(lx))
    ps.removeErrorListeners(); ps.addErrorListener(c)
    ps.mal()
    return c.n


def compile_files(files):
    """Write files to a fresh directory and compile main.mal with the real compiler. Returns (raised?, result or exception)."""
    from maltoolbox.language.compiler import MalCompiler
    _CNT[0] += 1
    d = os.path.join(os.getcwd(), 'c17_%d_%d' % (os.getpid(), _CNT[0]))
    os.makedirs(d)
    try:
        for n, t in files.items():
            with open(os.path.join(d, n), 'w', encoding='utf-8') as f:
                f.write(t)
        if 'inc.mal' in files:
            # the include path held a well-formed file during an earlier compilation in this process
            bad = files['inc.mal']
            with open(os.path.join(d, 'inc.mal'), 'w', encoding='utf-8') as f:
                f.write('#early: "ok"\n')
            try:
                MalCompiler().compile(os.path.join(d, 'main.mal'))
            except Exception:
                pass
            with open(os.path.join(d, 'inc.mal'), 'w', encoding='utf-8') as f:
                f.write(bad)
        comp = MalCompiler()
        try:
            r = comp.compile(os.path.join(d, 'main.mal'))
            return False, r
        except Exception as e:
            # a rejected compilation must stay rejected when the same compiler object is asked again
            try:
                r2 = comp.compile(os.path.join(d, 'main.mal'))
            except Exception:
                return True, e
            return False, r2
    finally:
        shutil.rmtree(d, ignore_errors=True)


def judge(text, layout):
    """text placed as root file or as an included file; '' if the compiler's behaviour matches the grammar's verdict."""
    import contextlib
    import io
    with contextlib.redirect_stderr(io.StringIO()), contextlib.redirect_stdout(io.StringIO()):
        nerr = grammar_errors(text)
        if layout == 0:
            files = {'main.mal': text}
        elif layout == 1:
            files = {'main.mal': '#id: "r"\n#version: "1.0.0"\ninclude "inc.mal"\n', 'inc.mal': text}
        elif layout == 2:
            files = {'main.mal': 'include "mid.mal"\n#id: "r"\n#version: "1.0.0"\n', 'mid.mal': 'include "inc.mal"\n', 'inc.mal': text}
        else:
            # the text is the root file and additionally includes a well-formed file, before and after its own content
            files = {'main.mal': 'include "ok.mal"\n' + text + '\ninclude "ok.mal"\n', 'ok.mal': '#id: "r"\n#version: "1.0.0"\n'}
            nerr = grammar_errors(files['main.mal'])
        raised, r = compile_files(files)
    if nerr > 0 and not raised:
        return 'text %r (%s) has %d grammar errors but compile() returned a specification with %d assets' % (
            text, ['root file', 'included file', 'file included by an included file', 'root file that also includes a well-formed file'][layout], nerr, len(r.get('assets', [])) if isinstance(r, dict) else -1)
    # the converse (grammar-clean text must compile) is not part of C17: an include of a missing file raises, rightly
    return ''


def body_short(cube, **kw):
    n = cube['len']
    parts = [pick(kw['c%d' % i], ALPHA) for i in range(n)]
    layout = idx(kw['lay'], 4)
    with notrace(), reclimit():
        return judge(' '.join(parts) if cube.get('spaced') else ''.join(parts), layout)


def body_edit(cube, **kw):
    with notrace():
        toks = tokens_of(VALID)
    nt = len(toks)
    op = idx(kw['op'], 4)            # delete / insert / substitute / truncate
    pos = idx(kw['pos'], nt)
    ins = pick(kw['tok'], cube['alpha']) if op in (1, 2) else ''
    layout = idx(kw['lay'], cube['layouts'])
    if cube['layouts'] == 2 and layout == 1:
        layout = 3 if cube.get('alt') else 1
    with notrace(), reclimit():
        t = list(toks)
        if op == 0:
            del t[pos]
        elif op == 1:
            t.insert(pos, ins)
        elif op == 2:
            t[pos] = ins
        else:
            t = t[:pos]
        return judge(' '.join(t), layout)


SYM_ALPHA = '#:"a{}E1.$ '
SYM_ALPHA_WIDE = '#:"a{}E1.$ |&!<->+@[]()*,=/^CIA_z9'
SYM_ROOT = '#id: "r"\n#version: "1.0.0"\ninclude "inc.mal"\n'


def body_symtext(cube, **kw):
    """Character-level: a *symbolic* string goes through the real lexer, parser and compiler under tracing
    (the ATN simulators branch on the symbolic characters; z3 decides each branch, paths merge character classes).
    Every text of this length over the alphabet that contains a non-blank character is erroneous for the grammar
    (no declaration fits; validated concretely by the witness run), so compile() must raise."""
    from antlr4 import InputStream
    from antlr4.dfa.DFA import DFA
    import maltoolbox.language.compiler as C
    from maltoolbox.language.compiler.mal_lexer import malLexer
    from maltoolbox.language.compiler.mal_parser import malParser
    text = kw['text']
    included = cube['included']
    # the static DFA caches make re-execution non-deterministic for the engine: reset them on every path
    malLexer.decisionsToDFA = [DFA(ds, i) for i, ds in enumerate(malLexer.atn.decisionToState)]
    malParser.decisionsToDFA = [DFA(ds, i) for i, ds in enumerate(malParser.atn.decisionToState)]
    if included:
        C.FileStream = lambda path, encoding='utf-8': InputStream(text if path.endswith('inc.mal') else SYM_ROOT)
    else:
        C.FileStream = lambda path, encoding='utf-8': InputStream(text)
    blank = all(c == ' ' for c in text)
    try:
        try:
            C.MalCompiler().compile('/nonexistent/main.mal')
        finally:
            from antlr4 import FileStream as _FS
            C.FileStream = _FS
    except Exception as e:
        if type(e).__name__ == 'NotDeterministic':
            raise
        return ''
    if blank:
        return ''
    if not isinstance(text, str) or type(text) is str:
        # concrete replay / witness: confirm with the counting listener that the grammar does call this text erroneous
        if grammar_errors(text) == 0:
            return ''
    return 'text %r (%s) is erroneous for the grammar but compile() returned a specification' % (text, 'included file' if included else 'root file')


def queries(tier):
    qs = []
    maxlen = 2 if tier == 'quick' else 3
    for n in range(0, maxlen + 1):
        ps = [I('c%d' % i, 0, len(ALPHA) - 1) for i in range(n)] + [I('lay', 0, 3)]
        qs.append(Query(name='short%d' % n, body=body_short, params=ps, cubes=[{'len': n, 'spaced': True}],
                        split=(['c0'] if n >= 2 else []) + (['c1'] if n >= 3 else []), timeout=600 if tier == 'quick' else 1700,
                        witnesses=[({'len': n, 'spaced': True}, dict({'c%d' % i: (3, 4, 5)[i] for i in range(n)}, lay=1))],
                        bound='every text of %d lexeme(s) from the %d-symbol alphabet %s, as root file, as included file, as nested include, and as a root file that also includes a well-formed file' % (n, len(ALPHA), ALPHA)))
    with_tokens = 72
    ec = {'alpha': ['#', '"x"', 'a', '}', 'E', '1', '.', '$'], 'layouts': 2} if tier == 'quick' else {'alpha': ALPHA, 'layouts': 4}
    ps = [I('op', 0, 3), I('pos', 0, 97), I('tok', 0, len(ec['alpha']) - 1), I('lay', 0, ec['layouts'] - 1)]
    qs.append(Query(name='edit', body=body_edit, params=ps, cubes=[ec], split=['op', 'lay'], timeout=600 if tier == 'quick' else 1700,
                    witnesses=[(ec, {'op': 0, 'pos': 5, 'tok': 0, 'lay': 0}), (ec, {'op': 3, 'pos': 30, 'tok': 0, 'lay': 1}),
                               (ec, {'op': 2, 'pos': 12, 'tok': 6, 'lay': 1})],
                    bound='a valid program (abstract/extends, let, all step types, tags, CIA, TTC, meta, requires, +>, subType, variable call, association) '
                          'with one token deleted / one lexeme of %s inserted or substituted at every position / truncated at every position, '
                          'in %d layouts (root, included, nested include)' % (ec['alpha'], ec['layouts'])))
    from xh.spec import P
    n = 2
    for inc in ((False,) if tier == 'quick' else (False, True)):
        qs.append(Query(name='symtext_inc' if inc else 'symtext', body=body_symtext, params=[P('text', 'str')],
                        cubes=[{'included': inc, 'len': n}], pre=['len(text) <= %d' % n, 'all(c in H.SYM_ALPHA for c in text)'],
                        timeout=900 if tier == 'quick' else 1700, path_timeout=120, fresh_process=True,
                        witnesses=[({'included': inc, 'len': n}, {'text': t}) for t in ('a', '{#', ' $', '1.', 'E"')],
                        bound='SYMBOLIC text of <= %d characters over the alphabet %r, executed through the real ANTLR lexer/parser and the compiler under '
                              'tracing, as %s' % (n, SYM_ALPHA, 'included file' if inc else 'root file')))
    if tier != 'quick':
        qs.append(Query(name='symtext_wide', body=body_symtext, params=[P('text', 'str')],
                        cubes=[{'included': False, 'len': 2}], pre=['len(text) <= 2', 'all(c in H.SYM_ALPHA_WIDE for c in text)'],
                        timeout=2400, path_timeout=120, fresh_process=True,
                        witnesses=[({'included': False, 'len': 2}, {'text': '->'})],
                        bound='SYMBOLIC text of <= 2 characters over the %d-character alphabet %r through the real lexer/parser/compiler' % (len(SYM_ALPHA_WIDE), SYM_ALPHA_WIDE)))
    return qs


META = {
    'bounds': 'token-level: all lexeme sequences of length <= 2 (quick) / 3 (thorough) over a 21-lexeme alphabet; all single-token edits of one valid program; 3 layouts',
    'outside': ['character-level symbolic text beyond 2 characters / beyond the stated alphabets (a fully unconstrained 2-character string does not exhaust in 600 s)',
                'texts with more than one edit', 'trailing input after a valid program: the grammar has no EOF anchor and reports no error, so the property does not demand rejection'],
    'stubs': ['symtext queries: maltoolbox.language.compiler.FileStream -> in-memory InputStream of the symbolic text (contract of a file read); ANTLR decisionsToDFA caches reset on every path'],
    'assumptions': ["the oracle is the repository's own generated lexer/parser with a counting error listener, as the property's quantifier states",
                    'the lexeme picks are decided by the solver; the compiler then runs untraced on the concrete text'],
    'requires': ['MalCompiler.compile', 'malVisitor.visitMal'],
}
get_query = getter(queries)
