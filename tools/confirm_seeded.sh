#!/bin/sh
# tools/confirm_seeded.sh <PROP> <i> : confirm mutant i of /tmp/mut/<PROP> in its scratch worktree and print a one-line verdict.
P=$1; I=$2; W=${3:-/tmp/mut}/$P
cd $W || exit 3
git checkout -q -- maltoolbox
/venv/bin/python demo$I.py > /tmp/confirm_$P$I.clean.log 2>&1; c=$?
git apply mutant$I.diff || { echo "$P m$I PATCH-FAILS"; exit 3; }
/venv/bin/python demo$I.py > /tmp/confirm_$P$I.mut.log 2>&1; m=$?
t=$(/venv/bin/python -m pytest -q -p no:cacheprovider --timeout=900 2>&1 | tail -1)
git checkout -q -- maltoolbox
rm -rf $W/tmp
echo "$P m$I demo_clean_rc=$c demo_mutant_rc=$m tests: $t"
