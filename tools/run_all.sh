#!/bin/sh
# Run every registered check of one tier in sequence (regenerates evidence/*.json on the real tree).
cd "$(dirname "$0")/.." || exit 3
TIER=${1:-quick}
for p in C01 C02 C03 C04 C05 C06 C07 C08 C09 C10 C11 C12 C13 C14 C15 C16 C17 C18 C19; do
  s=$(date +%s)
  ./check $p --tier $TIER > /tmp/run_all_$p.log 2>&1
  rc=$?
  e=$(date +%s)
  echo "$p rc=$rc $((e-s))s $(tail -1 /tmp/run_all_$p.log)"
  grep -E "^(VIOLATION|HARNESS-ERROR|INCONCLUSIVE|KNOWN-FINDING)" /tmp/run_all_$p.log | cut -c1-200
done
