#!/usr/bin/env python3
"""For every fix: commit in /repo find replay records that fail just before it and pass with it (regression witnesses)."""
import glob, json, os, subprocess, sys, tempfile
V = os.path.dirname(os.path.dirname(os.path.abspath(__file__)))
BASE = sys.argv[1] if len(sys.argv) > 1 else 'e16a03d'
commits = subprocess.check_output(['git', '-C', '/repo', 'log', '--reverse', '--format=%h %s', BASE + '..HEAD'], text=True).strip().splitlines()
recs = sorted(glob.glob(os.path.join(V, 'replays', '*', '*.json')))
print(len(recs), 'records', len(commits), 'commits')

import threading
LOCK = threading.Lock()

def run(commit, files):
    wt = tempfile.mkdtemp(prefix='wtfix-')
    os.rmdir(wt)
    with LOCK:
        subprocess.check_call(['git', '-C', '/repo', 'worktree', 'add', '-q', '--detach', wt, commit])
    try:
        env = dict(os.environ, VERIF_REPO=wt, PYTHONDONTWRITEBYTECODE='1', XH_REPLAY_LIMIT='20')
        out = {}
        for i in range(0, len(files), 400):
            p = subprocess.run(['/venv/bin/python', '-m', 'xh.replay', '--json'] + files[i:i + 400], cwd=V, env=env, capture_output=True, text=True)
            for line in p.stdout.splitlines():
                if line.startswith('{'):
                    o = json.loads(line)
                    out[o['file']] = (o['reproduced'], o['text'])
        return out
    finally:
        with LOCK:
            subprocess.call(['git', '-C', '/repo', 'worktree', 'remove', '--force', wt])

from concurrent.futures import ThreadPoolExecutor
hs = [BASE] + [l.split(' ', 1)[0] for l in commits]
with ThreadPoolExecutor(14) as ex:
    outs = list(ex.map(lambda h: run(h, recs), hs))
res = dict(zip(hs, outs))
def fails(h, f):
    r = res[h].get(f)
    return bool(r and r[0] and not r[1].startswith('REPLAY-ERROR'))
result = {}
for k, line in enumerate(commits):
    h, msg = line.split(' ', 1)
    prevh = hs[k]
    fixed_here = [f for f in recs if fails(prevh, f) and not fails(h, f) and all(not fails(x, f) for x in hs[k + 1:])]
    result[h] = {'msg': msg, 'witnesses': fixed_here[:40], 'texts': [res[prevh][f][1][:200] for f in fixed_here[:3]]}
    print(h, msg[:70], '->', len(fixed_here), 'records fixed')
json.dump(result, open(os.path.join(V, 'tools', 'fix_attribution.json'), 'w'), indent=1)
print('still failing at HEAD:', [f for f in recs if fails(hs[-1], f)][:10])
