#!/bin/sh
# tools/eval_seeded.sh [pattern] : run the quick check of each kept change under seeded/ against a scratch worktree of /repo HEAD
# with that change applied (never in /repo itself) and print one verdict line per change.  pattern defaults to '*'.
cd "$(dirname "$0")/.." || exit 3
for d in seeded/${1:-*}/; do
  id=$(basename "$d")
  p=${id%%-*}
  [ -f "$d/patch.diff" ] || continue
  s=$(date +%s)
  r=$(tools/eval_mutant.sh "$d/patch.diff" quick "$p" 2>&1 | tr '\n' ' ' | cut -c1-200)
  echo "$id $(( $(date +%s) - s ))s :: $r"
done
