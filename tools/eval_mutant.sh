#!/bin/sh
# tools/eval_mutant.sh <diff file> <tier> <PROP>...  : run checks against a scratch worktree of /repo HEAD with the diff applied.
# Evidence and replay records of these runs go to a scratch directory, never to /verif/evidence.
D=$(readlink -f "$1"); TIER=$2; shift 2
cd "$(dirname "$0")/.." || exit 3
WT=$(mktemp -d /tmp/mutwt-XXXXXX); rmdir "$WT"
flock /tmp/.verif-worktree.lock git -C /repo worktree add -q --detach "$WT" HEAD || exit 3
OUT=$(mktemp -d /tmp/mutout-XXXXXX)
if ! git -C "$WT" apply "$D"; then echo "PATCH-DOES-NOT-APPLY $D"; flock /tmp/.verif-worktree.lock git -C /repo worktree remove --force "$WT"; exit 3; fi
for p in "$@"; do
  VERIF_STOP_ON_FIRST=${VERIF_STOP_ON_FIRST-1} VERIF_REPO="$WT" VERIF_EVIDENCE_DIR="$OUT/ev" VERIF_REPLAY_DIR="$OUT/replays" VERIF_JOBS=${VERIF_JOBS:-16} ./check $p --tier $TIER > "$OUT/$p.log" 2>&1
  rc=$?
  echo "$p rc=$rc $(grep -c '^VIOLATION' "$OUT/$p.log") violations; $(grep -A1 '^VIOLATION' "$OUT/$p.log" | sed -n 2p | cut -c1-200)"
  grep -E '^HARNESS-ERROR' "$OUT/$p.log" | head -2 | cut -c1-250
done
flock /tmp/.verif-worktree.lock git -C /repo worktree remove --force "$WT"
rm -rf "$OUT"
