#!/usr/bin/env python3
"""Regenerate MANIFEST.json from the table below (keeps it schema-valid)."""
import json, os
V = os.path.dirname(os.path.dirname(os.path.abspath(__file__)))

TECH_SYM = 'bounded symbolic execution of the real maltoolbox modules with CrossHair 0.0.110 / z3: per-path SMT feasibility decisions over symbolic bool/int/real inputs, cube-split over 16 cores, "Confirmed over all paths" per cube; counterexamples replayed on the real code'

def _c(text, note, ref):
    return (text, note, ref)


TECH_ENUM = 'CrossHair 0.0.110 / z3 bounded model checking of the real code: the input structure (model, history, program) is a vector of symbolic bool/int choices with solver-checked preconditions; z3 decides every branch on them, each feasible path drives the real maltoolbox code on the induced input and is compared with a reference model; cubes run on 16 cores to "Confirmed over all paths"; counterexamples are replayed on the real code'
TECH = {k: TECH_SYM for k in ('C06', 'C08', 'C10', 'C11', 'C12', 'C13', 'C14')}
TECH['C17'] = TECH_SYM + ' (symbolic source text through the ANTLR lexer/parser); token-level queries: ' + TECH_ENUM
TECH['C04'] = TECH_ENUM + '; _post_process_multitudes executed on symbolic strings'
TECH['C16'] = TECH_ENUM + '; PYTHONHASHSEED clause by enumerated configurations'

CLAIMED = {
 'C01': _c('Every link matrix over two relations on 2 assets and every bounded one on 3 assets (self-links, cycles, shared members) is decided by the solver; on each the real Model API builds the model, the real generator runs and the children/parents of every node are compared with a reference evaluator of MAL set semantics over ~40 catalogued expressions (transitive only bounded from both sides; collect evaluated per asset); further queries: the inheritance family F_INH with 5 assets and link subsets (graph generated twice), and two languages with identical names but different bodies used alternately in one interpreter.',
           'Trusted: CrossHair/z3, reference evaluator xh/langs.py:ev. After the link bits are decided all values are concrete, so the generator itself runs untraced on that path. Outside: >3 assets, expressions outside the catalogue.', '4/C01'),
 'C02': _c('For the inheritance language L_INH all type/defense/link picks of a 3-asset model and all name triples over 4 names are decided; node set, attributes, defense/existence status, id and full-name uniqueness and lookups are compared with the root-down fold of the specification.',
           'Trusted: CrossHair/z3, xh/langs.py:ref_fold and ev. Names are picks (pjo rejects symbolic str).', '4/C02'),
 'C03': _c('All 256 override/extend/absent assignments over a 3-level inheritance tree x all histories of 2 (quick) / 3 (thorough) lookups, regenerations and attack-graph generations; after every step every type is compared with the fold and _lang_spec with its snapshot.',
           'Trusted: CrossHair/z3, reference fold. Outside: deeper chains, several interacting redefined steps.', '4/C03'),
 'C05': _c('Inductive-step formulation: API-built pre-states (9 bits: assets, links, self-links alone and beside other members, packed fields, one or two attackers, colliding names) x every operation (valid and invalid arguments) of the Model/AttackerAttachment API, 1 step (quick) / 2 steps (thorough), compared after every step with an abstract reference model through _to_dict, lookups, back-references, neighbours and entry points.',
           'Trusted: CrossHair/z3, abstract model in xh/h_c05.py. Universe of <= 4 assets of one type.', '4/C05'),
 'C06': _c('A fully symbolic float (all reals, +-inf) is pushed through the generated class\'s real validation: accepted iff in [0,1]; class exposure (assets, inherited defenses, defaults, duplicate-named associations) and association acceptance (type conformance, max multiplicity, repetition, existing link) are decided over all picks.',
           'Trusted: CrossHair/z3; python_jsonschema_objects is executed, not specified; its min/max error-text formatting is stubbed. NaN outside.', '4/C06'),
 'C07': _c('All id/name/defense/extras/link/attacker picks of 2-3 asset L_INH models x {json, yml, yaml} are saved, loaded and compared typed and structurally, incl. re-saving; hand-written dicts in every asset order with id 0 and type-only shorthand.',
           'Trusted: CrossHair/z3, json/yaml libraries. Names from 4 picks.', '4/C07'),
 'C08': _c('All labelled digraphs on 2 nodes (25 type vectors, self-loops, statuses, TTC kinds) and bounded families on 3 nodes are analysed by the real apriori code with symbolic defense/existence statuses and compared with the greatest fixed point computed by Kleene iteration; a second harness compares two storage orders of the same graph directly.',
           'Trusted: CrossHair/z3, oracle gfp() in xh/h_c08.py. Outside: N>=4, composite TTC expressions.', '4/C08'),
 'C09': _c('All histories of 2 (quick) / 3 (thorough) operations over add/remove node, add/remove attacker, compromise/undo, analysis, prune, deepcopy, save/load (hand-built graph) and regenerate/attach/model edits (generated graph); well-formedness and lookups of all ids/names ever seen after every step; regenerate == fresh.',
           'Trusted: CrossHair/z3, xh/g.py:wellformed.', '4/C09'),
 'C10': _c('Hand-built graphs with attribute picks, symbolic flags, two attackers, optional pruning and a generated graph (with/without model) are saved as json/yml/yaml, loaded and compared field by field with types.',
           'Trusted: CrossHair/z3, json/yaml libraries. One known finding (attackers keyed by name) is excluded by predicate and reported.', '4/C10'),
 'C04': _c('The solver decides a bounded program skeleton (one construct family at a time: 59-expression catalogue in reaches/let/requires, 18 TTC expressions, 8x8 multiplicity forms, step attributes, asset/category options, 5 include layouts); each program is printed as MAL text, compiled by the real compiler and compared with the specification it was printed from. _post_process_multitudes is executed on symbolic strings. The printer is validated on every run by round-tripping the coreLang .mar fixtures.',
           'Trusted: CrossHair/z3, the printer xh/malprint.py (validated on coreLang), ANTLR runtime. Weakest use of the technique: lexer/parser/visitor run on concrete text; only the choice space and the multiplicity post-processing are solver-decided.', '4/C04'),
 'C11': _c('Every compromise relation over 3 nodes x 2 attackers (built through the API) followed by every 1 (quick) / 2 (thorough) operations is executed symbolically on the real Attacker/AttackGraphNode/AttackGraph code and compared with a shadow relation; exhaustive within that bound.',
           'Trusted: CrossHair/z3, the shadow-relation oracle (xh/h_c11.py). Outside: larger graphs, longer histories.', '4/C11'),
 'C15': _c('Language graphs of three language families (12x4 L_INH variants, L_UNI with set operators over sibling types, L_SET) are compared with the declarations: assets, super/sub links, subtype closure, per-asset associations, association lookup in both orientations for every pair of subtypes, mirrored step links; five ill-formed variants must raise; for 4-asset models with every subset of 5 links each attack-graph edge must be predicted by a language-graph link.',
           'Trusted: CrossHair/z3, reference fold. Dependency chains attached to links are not observed.', '4/C15'),
 'C16': _c('For every 3-asset L_INH model of the C02 bound: generate+attach+analyse twice in one process (equal serialisation, inputs unchanged, no shared node) and through create_attack_graph from .mar+json and .mal+yml files. Hash seeds: the same generation in fresh interpreters under 3 (quick) / 5 (thorough) PYTHONHASHSEED values - an enumerated configuration, not solver-decided.',
           'Trusted: CrossHair/z3; the .mal route relies on xh/malprint.py. PYTHONHASHSEED cannot be symbolic.', '4/C16'),
 'C17': _c('Character-level: a SYMBOLIC string of <= 2 characters over an 11-character alphabet (thorough: also as included file and over a 34-character alphabet) is executed through the real ANTLR lexer, parser and compiler under tracing - z3 decides the ATN simulator\'s branches on the symbolic characters. Token-level: every lexeme sequence of length <= 2 (quick) / 3 (thorough) over a 21-lexeme alphabet and every single-token deletion / insertion / substitution / truncation of a valid program, as root file, included file, nested include and root-that-also-includes; a rejected compilation is retried on the same compiler object; whenever the grammar\'s own lexer/parser report an error to a counting listener, compile() must raise.',
           'Trusted: CrossHair/z3, the generated ANTLR lexer/parser as oracle (as the property states). Symbolic text beyond 2 characters / the stated alphabets is outside (an unconstrained 2-character string does not exhaust in 600 s).', '4/C17'),
 'C18': _c('3-asset L_INH models (ids incl. 0 and negative, defenses, links incl. duplicate-named classes and several members per field, attacker with up to 4 entry points incl. two on one asset) are emitted by inverse translators in the 0.0.39 layout (2 variants x json/yml/yaml) and as .sCAD archives (2 orientations) and loaded by the legacy loaders; assets, pairwise links and entry points are compared with the natively saved and loaded model.',
           'Trusted: CrossHair/z3, the inverse translators in xh/h_c18.py (my reading of the legacy formats; .eom element names follow the repository fixture).', '4/C18'),
 'C19': _c('Models and attack graphs are ingested into a recording stand-in for py2neo.Graph: nodes/relationships are compared with assets/linked pairs/attack steps/edges; get_model reads the ingested model back with result rows in every asset permutation and rotated/reversed relationship order (symbolic picks) and must reconstruct the same assets and links.',
           'Trusted: CrossHair/z3, the Cypher semantics modelled for the two fixed queries.', '4/C19'),
 'C12': _c('Traversability: one node of every type with symbolic viability and k<=3/4 parents with symbolic necessity/compromise bits (covers graphs of any size if the function reads only node+parents, which the global harness checks); surface, incremental update and graph immutability on all 2-node (3-node thorough) graphs; defense surface with symbolic real status.',
           'Trusted: CrossHair/z3, the definitional oracle in xh/h_c12.py.', '4/C12'),
 'C13': _c('All labelled graphs of 3 nodes (types x symbolic flags x bounded edge sets) and, thorough, 4 nodes are pruned by the real code under symbolic execution; survivors, labels and C09 well-formedness are compared with the definition; one attacker variant.',
           'Trusted: CrossHair/z3, oracle in xh/h_c13.py and xh/g.py:wellformed. Outside: >4 nodes, edge sets above the cap.', '4/C13'),
 'C14': _c('Deep copies of 2-node (3-node thorough) graphs with every tag/extras/TTC pick, edges and attackers are compared (serialisation, counters, lookups) and walked by identity for shared mutable data; 14 mutations (sequences of 2 thorough) on either side must stay invisible in the other graph.',
           'Trusted: CrossHair/z3, identity walk in xh/h_c14.py.', '4/C14'),
}
NOT_APPLICABLE = {}

def main():
    props = [json.loads(l) for l in open(os.path.join(V, 'properties.jsonl'))]
    checks = []
    for p in props:
        i = p['id']
        if i not in CLAIMED:
            continue
        text, note, ref = CLAIMED[i]
        checks.append({
            'property_id': i,
            'quick_cmd': './check %s --tier quick' % i,
            'thorough_cmd': './check %s --tier thorough' % i,
            'evidence_file': 'evidence/%s.json' % i,
            'replay_cmd_template': './check --replay {path}',
            'engine': 'xh',
            'level_claimed': {'category': 'model_checking', 'text': text, 'design_ref': 'DESIGN.md §' + ref},
            'level_note': note,
            'technique': TECH.get(i, TECH_ENUM),
        })
    na = [{'property_id': p['id'], 'reason': NOT_APPLICABLE.get(p['id'], 'not claimed')}
          for p in props if p['id'] not in CLAIMED]
    m = {
        'version': 1,
        'setup_cmd': './setup.sh',
        'hooks': {'guard': 'MAL_TOOLBOX_VERIF', 'enable': 'none needed: all stubs are installed from outside by the harness process (DESIGN.md §2.3)',
                  'baseline_off_cmd': 'cd /repo && /venv/bin/python -m pytest -ra -q -p no:cacheprovider --timeout=900',
                  'source_commits': [], 'add_only': True},
        'engines': [{'name': 'xh', 'path': 'xh/', 'serves_properties': sorted(CLAIMED),
                     'kind_free_text': 'CrossHair (symbolic execution of Python with z3) driven through its API; cube-and-conquer runner, concrete replay, known-findings handling'}],
        'checks': checks,
        'not_applicable': na,
        'notes': 'Exit codes of ./check: 0 held / only known findings; 1 VIOLATION (replayed on the real code); 3 harness error (never a verdict). INCONCLUSIVE lines mark cubes whose path tree was not exhausted within the budget (evidence exhaustive=false).',
    }
    json.dump(m, open(os.path.join(V, 'MANIFEST.json'), 'w'), indent=1)
    try:
        import jsonschema
        jsonschema.validate(m, json.load(open('/root/.vp/MANIFEST.schema.json')))
        print('MANIFEST.json valid,', len(checks), 'checks')
    except ImportError:
        print('written (jsonschema not available to validate)')

if __name__ == '__main__':
    main()
