#!/usr/bin/env python3
"""Regenerate MANIFEST.json from the table below (keeps it schema-valid)."""
import json, os
V = os.path.dirname(os.path.dirname(os.path.abspath(__file__)))

TECH = 'bounded symbolic execution of the real maltoolbox modules with CrossHair 0.0.110 / z3: per-path SMT feasibility decisions over symbolic bool/int/real inputs, cube-split over 16 cores, "Confirmed over all paths" per cube; counterexamples replayed on the real code'

CLAIMED = {
 # id: (level text, level note, design ref)
 'C11': ('Every compromise relation over 3 nodes x 2 attackers (built through the API) followed by every 1 (quick) / 2 (thorough) operations is executed symbolically on the real Attacker/AttackGraphNode/AttackGraph code and compared with a shadow relation; exhaustive within that bound.',
         'Trusted: CrossHair/z3, the shadow-relation oracle (xh/h_c11.py). Outside: larger graphs, longer histories.', '4/C11'),
 'C13': ('All labelled graphs of 3 nodes (types x symbolic flags x bounded edge sets) and, thorough, 4 nodes are pruned by the real code under symbolic execution; survivors, labels and C09 well-formedness are compared with the definition.',
         'Trusted: CrossHair/z3, oracle in xh/h_c13.py and xh/g.py:wellformed. Outside: >4 nodes, edge sets above the cap.', '4/C13'),
}
NOT_APPLICABLE = {}

def main():
    props = [json.loads(l) for l in open(os.path.join(V, 'properties.jsonl'))]
    checks = []
    for p in props:
        i = p['id']
        if i not in CLAIMED:
            continue
        text, note, ref = CLAIMED[i]
        checks.append({
            'property_id': i,
            'quick_cmd': './check %s --tier quick' % i,
            'thorough_cmd': './check %s --tier thorough' % i,
            'evidence_file': 'evidence/%s.json' % i,
            'replay_cmd_template': './check --replay {path}',
            'engine': 'xh',
            'level_claimed': {'category': 'model_checking', 'text': text, 'design_ref': 'DESIGN.md §' + ref},
            'level_note': note,
            'technique': TECH,
        })
    na = [{'property_id': p['id'], 'reason': NOT_APPLICABLE.get(p['id'], 'check not built yet (work in progress); see DESIGN.md §4')}
          for p in props if p['id'] not in CLAIMED]
    m = {
        'version': 1,
        'setup_cmd': './setup.sh',
        'hooks': {'guard': 'MAL_TOOLBOX_VERIF', 'enable': 'none needed: all stubs are installed from outside by the harness process (DESIGN.md §2.3)',
                  'baseline_off_cmd': 'cd /repo && /venv/bin/python -m pytest -ra -q -p no:cacheprovider --timeout=900',
                  'source_commits': [], 'add_only': True},
        'engines': [{'name': 'xh', 'path': 'xh/', 'serves_properties': sorted(CLAIMED),
                     'kind_free_text': 'CrossHair (symbolic execution of Python with z3) driven through its API; cube-and-conquer runner, concrete replay, known-findings handling'}],
        'checks': checks,
        'not_applicable': na,
        'notes': 'Exit codes of ./check: 0 held / only known findings; 1 VIOLATION (replayed on the real code); 3 harness error (never a verdict). INCONCLUSIVE lines mark cubes whose path tree was not exhausted within the budget (evidence exhaustive=false).',
    }
    json.dump(m, open(os.path.join(V, 'MANIFEST.json'), 'w'), indent=1)
    try:
        import jsonschema
        jsonschema.validate(m, json.load(open('/root/.vp/MANIFEST.schema.json')))
        print('MANIFEST.json valid,', len(checks), 'checks')
    except ImportError:
        print('written (jsonschema not available to validate)')

if __name__ == '__main__':
    main()
